#!/bin/bash
# usage: seedtest.sh <dir with patch.diff demo.py> <PROP[,PROP...]> [runs]
SRC=$1; PROPS=$2; RUNS=${3:-}
D=/tmp/seedw_$$
git -C /repo worktree add -q $D HEAD || exit 9
echo "--- demo on clean:"; (cd $D && timeout 600 /venv/bin/python -B -W ignore $SRC/demo.py $D 2>&1 | tail -2; echo "exit=${PIPESTATUS[0]}")
if ! git -C $D apply $SRC/patch.diff; then echo "PATCH DOES NOT APPLY"; git -C /repo worktree remove --force $D; exit 8; fi
git -C $D diff --stat | tail -1
echo "--- demo on patched:"; (cd $D && timeout 600 /venv/bin/python -B -W ignore $SRC/demo.py $D 2>&1 | tail -2; echo "exit=${PIPESTATUS[0]}")
for P in ${PROPS//,/ }; do
  if [ -n "$RUNS" ]; then EXTRA="--runs $RUNS"; else EXTRA=""; fi
  VERIF_REPO=$D VERIF_FRESH_REPLAY=0 /verif/check $P $EXTRA > /tmp/seedw_out_$$.txt 2>&1; code=$?
  echo "--- check $P exit=$code"; grep -E "signature|HARNESS|runs=" /tmp/seedw_out_$$.txt | cut -c1-260 | head -8
done
rm -f /verif/replays/C*.json /tmp/seedw_out_$$.txt
git -C /repo worktree remove --force $D
