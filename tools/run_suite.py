"""Run the repo's test suite in parallel shards and compare with BASELINE stable_pass. usage: run_suite.py <repo>"""
import json, os, subprocess, sys, tempfile, xml.etree.ElementTree as ET, concurrent.futures, time
repo = sys.argv[1]
base = json.load(open('/root/.vp/BASELINE.json'))
stable = set(base['stable_pass'])
out = subprocess.run(['/venv/bin/python', '-m', 'pytest', '--collect-only', '-q', '-p', 'no:cacheprovider'], cwd=repo, capture_output=True, text=True)
ids = [l.strip() for l in out.stdout.splitlines() if '::' in l]
N = 16
groups = [ids[i::N] for i in range(N)]
tmp = tempfile.mkdtemp(prefix='suite_')
def run(k):
    if not groups[k]: return None
    jx = os.path.join(tmp, 'j%d.xml' % k)
    env = dict(os.environ, OMP_NUM_THREADS='1', OPENBLAS_NUM_THREADS='1')
    p = subprocess.run(['/venv/bin/python', '-m', 'pytest', '-q', '-p', 'no:cacheprovider', '--timeout=900', '--junitxml=' + jx] + groups[k], cwd=repo, capture_output=True, text=True, env=env)
    return jx
t0 = time.time()
with concurrent.futures.ThreadPoolExecutor(N) as ex:
    files = list(ex.map(run, range(N)))
passed, failed = set(), set()
for f in files:
    if not f or not os.path.exists(f): continue
    for tc in ET.parse(f).getroot().iter('testcase'):
        name = '%s::%s' % (tc.get('classname'), tc.get('name'))
        bad = any(ch.tag in ('failure', 'error') for ch in tc)
        skipped = any(ch.tag == 'skipped' for ch in tc)
        (failed if bad else passed).add(name) if not skipped else None
missing = sorted(stable - passed)
print('collected %d, passed %d, failed %d, stable_pass missing %d, wall %.0fs' % (len(ids), len(passed), len(failed), len(missing), time.time() - t0))
for m in missing: print('  MISSING', m)
for m in sorted(failed): print('  FAILED', m)
import shutil; shutil.rmtree(tmp, ignore_errors=True)
sys.exit(1 if missing else 0)
