#!/bin/bash
# usage: mut.sh <PROP[,PROP]> <runs> <file> <python-replace-old> <python-replace-new>
set -e
D=/tmp/mutw_$$
git -C /repo worktree add -q $D HEAD
python3 - "$D/$3" "$4" "$5" <<'PY'
import sys
p, old, new = sys.argv[1:4]
s = open(p).read()
assert old in s, "pattern not found"
open(p, 'w').write(s.replace(old, new, 1))
PY
git -C $D diff --stat | tail -1
for P in ${1//,/ }; do
  VERIF_REPO=$D VERIF_FRESH_REPLAY=0 /verif/check $P --runs $2 2>&1 | grep -E "signature|runs=|HARNESS" | cut -c1-220 | head -6
  echo "exit=$?"
done
rm -f /verif/replays/C*.json
git -C /repo worktree remove --force $D
