#!/bin/bash
# confirm that the existing suite passes with each seeded patch
for d in /verif/seeded/*/; do
  name=$(basename $d)
  if [ -f $d/suite_confirmed.txt ]; then continue; fi
  W=/tmp/confw_$name
  git -C /repo worktree add -q $W HEAD
  git -C $W apply $d/patch.diff
  /venv/bin/python /verif/tools/run_suite.py $W > $d/suite_confirmed.txt 2>&1
  git -C /repo worktree remove --force $W
done
echo ALLDONE
