"""
C14 -- a legal (small) tolerance makes solve(dimension_reduction_heuristic=...) lose the guarantee.

The plain solve of a 3-step gradient-descent PEP returns a finite guarantee.  The same solve with
dimension_reduction_heuristic="trace" and tol_dimension_reduction in {0.0, 1e-12, 1e-9} does NOT return this
guarantee: the second (heuristic) SDP is reported infeasible / infeasible_inaccurate by the solver
(the extra constraint  objective >= optimum - tol  is violated by the solver's own inaccuracy), its Gram matrix is
None, and PEP.solve dies with  AttributeError: 'NoneType' object has no attribute 'T'  in
get_nb_eigenvalues_and_corrected_matrix.  No value is returned, G_value is None, points cannot be evaluated, while
pep.residual and the constraints' dual values (those of the original problem) have already been assigned.
The status of the heuristic solve is never looked at (cvxpy path).
"""
import sys, io, contextlib, warnings
warnings.filterwarnings('ignore')
sys.path.insert(0, sys.argv[1] if len(sys.argv) > 1 else '.')
from PEPit import PEP
from PEPit.functions import SmoothStronglyConvexFunction


def model():
    pep = PEP()
    f = pep.declare_function(SmoothStronglyConvexFunction, mu=.1, L=1.)
    xs = f.stationary_point()
    x0 = pep.set_initial_point()
    pep.set_initial_condition((x0 - xs) ** 2 <= 1)
    x = x0
    for _ in range(3):
        x = x - f.gradient(x)
    pep.set_performance_metric(f(x) - f(xs))
    return pep, x


def quiet(fn, **kw):
    with contextlib.redirect_stdout(io.StringIO()):
        return fn(**kw)


pep, x = model()
ref = quiet(pep.solve, verbose=0, solver='SCS')
print('guarantee without dimension reduction:', ref)

violations = 0
for heuristic in ['trace', 'logdet1']:
    for tol in [0.0, 1e-12, 1e-9, 1e-4]:
        pep, x = model()
        try:
            val = quiet(pep.solve, verbose=0, solver='SCS', dimension_reduction_heuristic=heuristic,
                        tol_dimension_reduction=tol)
            print(heuristic, tol, '-> returned', val, '(same as reference: {})'.format(val == ref))
            if val != ref:
                violations += 1
        except Exception as e:
            violations += 1
            cons = pep._list_of_constraints_sent_to_wrapper
            print(heuristic, tol, '-> solve raised {}: {}'.format(type(e).__name__, e))
            print('      status of the heuristic solve:', pep.wrapper.prob.status,
                  '| G_value is None:', pep.G_value is None,
                  '| residual already set:', pep.residual is not None,
                  '| first dual value readable:', cons[0]._dual_variable_value)

if violations:
    print('VIOLATION: {} call(s) with a dimension reduction heuristic did not report the guarantee {} '
          'of the original problem'.format(violations, ref))
    sys.exit(1)
print('no violation observed')
sys.exit(0)
