"""C16 - objects whose decomposition contains no leaf return numbers before any solve, and after a failed solve.

Point.eval / Expression.eval only raise the "must be solved" ValueError when they meet a leaf without value.
A point or an expression whose (pruned) decomposition has no leaf - x - x, (x - x) ** 2, f(x) - f(x) + 1, a constraint
or an LMI made of such expressions - therefore evaluates to a number although its model was never solved (or was found
infeasible, solve returning None). For the null point the returned vector is np.zeros(Point.counter): its dimension is
the number of leaf points that happen to exist at the time of the call, not the dimension the solved model will have
(the block-partition leaves are only created by solve), so the "value" is fabricated.
"""
import sys
sys.path.insert(0, sys.argv[1])
import warnings
warnings.filterwarnings("ignore")

from PEPit import PEP
from PEPit.functions import BlockSmoothConvexFunction
from PEPit.psd_matrix import PSDMatrix

pep = PEP()
part = pep.declare_block_partition(d=2)
f = pep.declare_function(BlockSmoothConvexFunction, partition=part, L=[1., 2.])
xs = f.stationary_point()
x0 = pep.set_initial_point()
g0, f0 = f.oracle(x0)

objects = {
    "point x0 - x0": (x0 - x0),
    "expression (x0 - x0) ** 2": (x0 - x0) ** 2,
    "expression f0 - f0 + 1": f0 - f0 + 1,
    "constraint f0 - f0 + 1 <= 0": (f0 - f0 + 1 <= 0),
    "LMI [[f0 - f0 + 1, 0], [0, 1]]": PSDMatrix([[f0 - f0 + 1, 0.], [0., 1.]]),
}

numbers = 0


def probe(when):
    global numbers
    for label, obj in objects.items():
        try:
            value = obj.eval()
            numbers += 1
            print("{}: {}.eval() returned {!r}".format(when, label, value))
        except ValueError as error:
            print("{}: {}.eval() raised ValueError: {}".format(when, label, error))


probe("before any solve")
dim_before = (x0 - x0).eval().shape[0]

# An infeasible model: solve finds no value.
pep.set_initial_condition((x0 - xs) ** 2 <= 1)
bad = (f0 - f0 + 1 <= 0)
pep.add_constraint(bad)
pep.set_performance_metric(f0 - f(xs))
tau = pep.solve(verbose=0)
print("solve of the infeasible model returned", tau)
try:
    print("x0.eval() ->", x0.eval())
except ValueError as error:
    print("x0.eval() raised ValueError:", error)
probe("after the failed solve")
print("infeasible constraint .eval() after the failed solve ->", bad.eval())
dim_after = (x0 - x0).eval().shape[0]
print("dimension of the value of x0 - x0 before solve: {}, after the (failed) solve: {}".format(dim_before, dim_after))

sys.exit(1 if numbers > 0 and tau is None else 0)
