"""C07 - proximal_step with a null step size records a second, unrelated sample at an already sampled point.

proximal_step(x0, f, gamma) builds x = x0 - gamma * gx and calls f.add_point((x, gx, fx)) with a NEW value leaf fx
and a NEW gradient leaf gx without checking whether f is already sampled at x. With gamma = 0, x has exactly the
decomposition of x0 (the prox with a null step is the identity), so
 (a) f gets two different function values at the same point (fx is a fresh leaf, not f(x0));
 (b) a function declared differentiable gets two different gradients at the same point;
 (c) for a composite F = f1 + f2 whose differentiable terms are already sampled at x0, Function.add_point finds that
     "no term needs anything" and returns: the recorded (x, gx, fx) of F is NOT the weighted sum of the samples of its
     terms - gx and fx are free variables. The worst case of ||gx - grad F(x0)||^2, which is 0, comes out unbounded.
"""
import sys
sys.path.insert(0, sys.argv[1])
import warnings
warnings.filterwarnings("ignore")

from PEPit import PEP
from PEPit.functions import SmoothStronglyConvexFunction, ConvexFunction
from PEPit.primitive_steps import proximal_step
from PEPit.tools.dict_operations import prune_dict

violation = False


def nz(obj):
    return prune_dict(obj.decomposition_dict)


# ---- (c) composite of two differentiable functions
pep = PEP()
f1 = pep.declare_function(SmoothStronglyConvexFunction, mu=.1, L=1.)
f2 = pep.declare_function(SmoothStronglyConvexFunction, mu=.1, L=2.)
F = f1 + f2
xs = F.stationary_point()
x0 = pep.set_initial_point()
g0, v0 = F.oracle(x0)
x, gx, fx = proximal_step(x0, F, 0)

same_point = nz(x) == nz(x0)
records_at_x0 = [r for r in F.list_of_points if nz(r[0]) == nz(x0)]
values = [nz(r[2]) for r in records_at_x0]
print("x returned by proximal_step has the decomposition of x0:", same_point)
print("number of samples of F at that point:", len(records_at_x0),
      "- all with the same value:", all(v == values[0] for v in values))
# weighted sum of the terms' samples at that point
g_sum = f1.gradient(x0) + f2.gradient(x0)
v_sum = f1.value(x0) + f2.value(x0)
linked = (nz(gx) == nz(g_sum)) and (nz(fx) == nz(v_sum))
print("sample (x, gx, fx) of F equals the sum of the samples of f1 and f2 at that point:", linked)
print("F declared differentiable:", F.reuse_gradient, "- gx is grad F(x0):", nz(gx) == nz(g0))

pep.set_initial_condition((x0 - xs) ** 2 <= 1)
pep.set_performance_metric((gx - g0) ** 2)
tau = pep.solve(verbose=0)
print("worst case of ||gx - grad F(x0)||^2 (must be 0 for a differentiable F):", tau)
if same_point and (len(records_at_x0) > 1) and (not linked or not all(v == values[0] for v in values)):
    violation = True
if tau is None or tau > 1e-3:
    violation = True

# ---- (a), (b) leaf function declared differentiable
pep = PEP()
h = pep.declare_function(ConvexFunction, reuse_gradient=True)
hs = h.stationary_point()
y0 = pep.set_initial_point()
gy0, hy0 = h.oracle(y0)
y, gy, hy = proximal_step(y0, h, 0.)
recs = [r for r in h.list_of_points if nz(r[0]) == nz(y0)]
print("leaf h declared differentiable: samples at y0:", len(recs),
      "- same gradient:", all(nz(r[1]) == nz(recs[0][1]) for r in recs),
      "- same value:", all(nz(r[2]) == nz(recs[0][2]) for r in recs))
pep.set_initial_condition((y0 - hs) ** 2 <= 1)
pep.add_constraint(gy0 ** 2 <= 1)
pep.add_constraint(gy ** 2 <= 1)
pep.set_performance_metric((gy - gy0) ** 2)
tau2 = pep.solve(verbose=0)
print("worst case of ||gy - grad h(y0)||^2 with both norms <= 1 (must be 0 if h is differentiable):", tau2)
if len(recs) > 1 and not all(nz(r[1]) == nz(recs[0][1]) and nz(r[2]) == nz(recs[0][2]) for r in recs):
    violation = True

sys.exit(1 if violation else 0)
