"""C02: a Point whose decomposition is empty (the zero gradient returned at a stationary point, x - x, null_point, ...)
is evaluated as np.zeros(Point.counter), i.e. with the CURRENT number of leaf points, not with the dimension of the
solution. As soon as one leaf point is created after the solve, this value has another dimension than every other
evaluated point, so the value of g_s is no longer the combination of the values of its operands and cannot even be
added to / multiplied with the other values. (Before any solve it also returns numbers instead of raising.)"""
import sys, warnings
warnings.filterwarnings("ignore")
sys.path.insert(0, sys.argv[1] if len(sys.argv) > 1 else "/tmp/hunt/repoE")
import numpy as np
from PEPit import PEP, Point
from PEPit.functions import SmoothStronglyConvexFunction

pep = PEP()
f = pep.declare_function(SmoothStronglyConvexFunction, L=1., mu=.1)
xs, gs, fs = f.stationary_point(return_gradient_and_function_value=True)   # gs: the (zero) gradient at xs
x0 = pep.set_initial_point()
pep.set_initial_condition((x0 - xs) ** 2 <= 1)
x1 = x0 - f.gradient(x0)
pep.set_performance_metric((x1 - xs) ** 2)
zero = x0 - x0

bad = False
try:
    print("before any solve, (x0 - x0).eval() =", zero.eval(), " <- a number although nothing was solved")
except ValueError as e:
    print("before any solve: raises", e)

pep.solve(verbose=0)
print("right after the solve : x0", x0.eval().shape, " grad f(xs)", gs.eval().shape, " x0 - x0", zero.eval().shape)

x_next = Point()   # any new leaf created after the solve (e.g. f.gradient at a new point, set_initial_point(), ...)
shapes = dict(x0=x0.eval().shape, gs=gs.eval().shape, zero=zero.eval().shape, sum=(x0 + gs).eval().shape)
print("after one new leaf    :", shapes)
if gs.eval().shape != x0.eval().shape or zero.eval().shape != x0.eval().shape:
    bad = True
    print("VIOLATION: the zero gradient at the stationary point / x0 - x0 do not live in the space of the solution")
try:
    lhs = (x0 + gs).eval()
    rhs = x0.eval() + gs.eval()
    if not np.allclose(lhs, rhs):
        bad = True
except ValueError as e:
    bad = True
    print("VIOLATION: (x0 + gs).eval() is fine but x0.eval() + gs.eval() raises:", e)
try:
    print("<x1, gs> from values:", float(np.dot(x1.eval(), gs.eval())), " from expression:", (x1 * gs).eval())
except ValueError as e:
    bad = True
    print("VIOLATION: np.dot(x1.eval(), gs.eval()) raises while (x1 * gs).eval() =", (x1 * gs).eval(), ":", e)
sys.exit(1 if bad else 0)
