"""C16: cvxpy back-end, dimension reduction: when the SECOND solver call finds no solution, solve() neither returns
None nor raises a meaningful error: it crashes with AttributeError ('NoneType' object has no attribute 'T'), after
having already stored multipliers.  Afterwards eval_dual() of the constraints returns numbers while eval() of every
point raises 'The PEP must be solved' -- duals are readable on a model whose solve never completed.

No monkeypatching is needed: out-of-range option values that the library does not validate are enough
(tol_dimension_reduction=-1 makes the second problem infeasible; eig_regularization=-1 makes it unbounded).
(The known item about the MOSEK wrapper is a different code path/symptom: here the cvxpy wrapper yields G=None.)
"""
import sys, warnings
warnings.filterwarnings("ignore")
sys.path.insert(0, sys.argv[1])
from PEPit import PEP
from PEPit.functions import SmoothStronglyConvexFunction


def build():
    pep = PEP()
    f = pep.declare_function(SmoothStronglyConvexFunction, L=1., mu=.1)
    xs = f.stationary_point()
    x0 = pep.set_initial_point()
    ic = (x0 - xs) ** 2 <= 1
    pep.set_initial_condition(ic)
    x1 = x0 - f.gradient(x0)
    pep.set_performance_metric(f(x1) - f(xs))
    return pep, x0, ic


violations = []
for label, opts in [("trace, tol_dimension_reduction=-1 (2nd problem infeasible)",
                     dict(dimension_reduction_heuristic="trace", tol_dimension_reduction=-1.)),
                    ("logdet1, eig_regularization=-1 (2nd problem unbounded)",
                     dict(dimension_reduction_heuristic="logdet1", eig_regularization=-1.))]:
    pep, x0, ic = build()
    try:
        out = pep.solve(verbose=0, **opts)
        print(label, "-> returned", out)
        outcome = "returned"
    except ValueError as e:
        print(label, "-> ValueError", e)
        outcome = "ValueError"
    except Exception as e:
        print(label, "-> crashed with", type(e).__name__, ":", e)
        outcome = type(e).__name__
    try:
        primal = ("value", x0.eval())
    except ValueError as e:
        primal = ("ValueError", str(e))
    try:
        dual = ("value", ic.eval_dual())
    except ValueError as e:
        dual = ("ValueError", str(e))
    print("    afterwards x0.eval():", primal[0], "| ic.eval_dual():", dual)
    if outcome not in ("returned", "ValueError") or (primal[0] == "ValueError" and dual[0] == "value"):
        violations.append(label)
if violations:
    print("VIOLATION: no-solution second call -> undocumented exception type and readable duals without a "
          "completed solve:", violations)
    sys.exit(1)
sys.exit(0)
