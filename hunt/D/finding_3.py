"""C16: invalid option values are not rejected.

(a) wrapper="scs_typo" (not a wrapper, not an installed package): with verbose=0 solve silently uses cvxpy and
    returns a number, no error;
(b) return_primal_or_dual="both" and dimension_reduction_heuristic="bogus" are only looked at after a
    successful first solve: on an unbounded model solve(...) returns None without any error;
(c) dimension_reduction_heuristic="logdet-3" is accepted silently (no iteration, no error).
"""
import sys, warnings, io, contextlib
warnings.filterwarnings("ignore")
sys.path.insert(0, sys.argv[1])
from PEPit import PEP
from PEPit.functions import SmoothStronglyConvexFunction


def build(bounded):
    pep = PEP()
    f = pep.declare_function(SmoothStronglyConvexFunction, L=1., mu=.1)
    xs = f.stationary_point()
    x0 = pep.set_initial_point()
    if bounded:
        pep.set_initial_condition((x0 - xs) ** 2 <= 1)
    x1 = x0 - f.gradient(x0)
    pep.set_performance_metric(f(x1) - f(xs))
    return pep


accepted = []
cases = [
    ("wrapper='scs_typo' (bounded model)", True, dict(wrapper="scs_typo")),
    ("return_primal_or_dual='both' (unbounded model)", False, dict(return_primal_or_dual="both")),
    ("dimension_reduction_heuristic='bogus' (unbounded model)", False, dict(dimension_reduction_heuristic="bogus")),
    ("dimension_reduction_heuristic='logdet-3' (bounded model)", True, dict(dimension_reduction_heuristic="logdet-3")),
]
for label, bounded, opts in cases:
    pep = build(bounded)
    try:
        out = pep.solve(verbose=0, **opts)
        print(label, "-> no error, returned", out)
        accepted.append(label)
    except Exception as e:
        print(label, "-> rejected with", type(e).__name__)
if accepted:
    print("VIOLATION: invalid option values accepted without error:", accepted)
    sys.exit(1)
sys.exit(0)
