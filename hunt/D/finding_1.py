"""C13 (also C16): a re-solve that finds no finite value leaves every object evaluating to the PREVIOUS solve.

Solve a bounded model, remove its initial condition (model becomes unbounded), solve again: solve() returns None,
yet points, expressions, constraints (primal and dual), pep.objective, pep.G_value still return the numbers of the
first solve.  A newly built equivalent (unbounded) model raises the 'must be solved' ValueError for all of them.
"""
import sys, warnings
warnings.filterwarnings("ignore")
sys.path.insert(0, sys.argv[1])
from PEPit import PEP
from PEPit.functions import SmoothStronglyConvexFunction


def build(with_condition):
    pep = PEP()
    f = pep.declare_function(SmoothStronglyConvexFunction, L=1., mu=.1)
    xs = f.stationary_point()
    fs = f(xs)
    x0 = pep.set_initial_point()
    ic = (x0 - xs) ** 2 <= 1
    if with_condition:
        pep.set_initial_condition(ic)
    x1 = x0 - f.gradient(x0)
    d = x1 - xs
    metric = f(x1) - fs
    pep.set_performance_metric(metric)
    return pep, dict(leaf_point=x0, derived_point=d, expression=metric, constraint=ic)


def probe(objs, pep):
    out = {}
    accessors = [(k + ".eval", v.eval) for k, v in objs.items()]
    accessors.append(("constraint.eval_dual", objs["constraint"].eval_dual))
    accessors.append(("pep.objective.eval", pep.objective.eval))
    for name, fn in accessors:
        try:
            out[name] = ("value", fn())
        except ValueError as e:
            out[name] = ("ValueError", str(e))
    return out


# Reference: freshly built unbounded model
ref_pep, ref_objs = build(with_condition=False)
ref_val = ref_pep.solve(verbose=0)
ref = probe(ref_objs, ref_pep)
print("fresh unbounded model: solve ->", ref_val)
for k, v in ref.items():
    print("   ", k, "->", v[0])

# Same model reached by editing a solved model
pep, objs = build(with_condition=True)
v1 = pep.solve(verbose=0)
first = probe(objs, pep)
pep.list_of_constraints.remove(objs["constraint"])
v2 = pep.solve(verbose=0)
second = probe(objs, pep)
print("edited model: first solve ->", v1, "; second solve ->", v2)
stale = []
for k in second:
    print("   ", k, "-> after 2nd solve:", second[k][0], "" if second[k][0] != "value" else repr(second[k][1]))
    # constraint.* of the removed condition is excluded from the verdict (see finding_2); the others are part of the model
    if second[k][0] == "value" and ref[k][0] == "ValueError" and not k.startswith("constraint"):
        stale.append(k)
print("G_value still set:", pep.G_value is not None)
if v2 is None and stale:
    print("VIOLATION: solve returned None but these still return numbers of the earlier solve:", stale)
    sys.exit(1)
sys.exit(0)
