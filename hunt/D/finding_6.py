"""C13 (x C12): re-solving an UNCHANGED, already solved problem object after another PEP object has merely been
constructed in the same process silently solves the OTHER model.

pepA (L=1) is solved -> tau_A.  pepB (same algorithm, L=3) is built (variant 1) or built and solved (variant 2).
pepA.solve() is called again, unchanged: variant 1 crashes with IndexError; variant 2 builds an SDP mixing pepA's metric
and conditions with pepB's interpolation constraints, writes the solution into pepB's leaves and then dies on
"assert wc_value == self.objective.eval()" (under python -O it returns pepB's value), because solve reads the class-level registries (Function.list_of_functions,
Point.counter, ...) that PEP() reset for pepB, instead of pepA's own functions/points.  Moreover pepA's held objects
now evaluate to ... the old values of solve 1 (its leaves are no longer in the registries), so the returned value and
the values of the objects disagree.
"""
import sys, warnings
warnings.filterwarnings("ignore")
sys.path.insert(0, sys.argv[1])
from PEPit import PEP
from PEPit.functions import SmoothStronglyConvexFunction


def build(L, gamma):
    pep = PEP()
    f = pep.declare_function(SmoothStronglyConvexFunction, L=L, mu=.1)
    xs = f.stationary_point()
    x0 = pep.set_initial_point()
    pep.set_initial_condition((x0 - xs) ** 2 <= 1)
    x1 = x0 - gamma * f.gradient(x0)
    metric = f(x1) - f(xs)
    pep.set_performance_metric(metric)
    return pep, metric


pepA, metricA = build(L=1., gamma=1.)
tauA_1 = pepA.solve(verbose=0)
mA_1 = metricA.eval()

pepB, metricB = build(L=3., gamma=1.)      # another model is built ...
try:
    pepA.solve(verbose=0)                  # ... unchanged pepA solved again while pepB is only built
    print("variant 1 (pepB built, unsolved): pepA.solve() returned")
    crash = None
except Exception as e:
    crash = type(e).__name__
    print("variant 1 (pepB built, unsolved): pepA.solve() crashed with", crash, ":", e)

pepB, metricB = build(L=3., gamma=1.)
pepB.solve(verbose=0)                      # variant 2: the other model has been solved too
try:
    tauA_2 = pepA.solve(verbose=0)         # unchanged pepA solved again
    crash2 = None
except (Exception, AssertionError) as e:
    tauA_2 = None
    crash2 = type(e).__name__
    print("variant 2 (pepB built and solved): pepA.solve() crashed with", crash2, e)
mA_2 = metricA.eval()

# reference: what pepB gives on its own (fresh)
pepB2, _ = build(L=3., gamma=1.)
tauB = pepB2.solve(verbose=0)

print("pepA first solve          :", tauA_1, " metricA.eval() =", mA_1)
print("pepA second solve (same A):", tauA_2, " metricA.eval() =", mA_2)
print("pepB solved on its own    :", tauB)
print("B's leaves now hold the solution computed during pepA.solve():", metricB.eval())
if crash or crash2 or tauA_2 is None or abs(tauA_2 - tauA_1) > 1e-3:
    print("VIOLATION: re-solving the unchanged pepA returned a different value ({} vs {}){}".format(
        tauA_2, tauA_1, " = value of the other model" if tauA_2 is not None and abs(tauA_2 - tauB) < 1e-6 else ""))
    sys.exit(1)
sys.exit(0)
