"""C13: a re-solve interrupted by Ctrl-C (KeyboardInterrupt raised through sys.settrace when
PEP._eval_points_and_function_values is entered) leaves a MIX of two solves: multipliers, pep.residual, pep.G_value
come from the interrupted (2nd) solve, while every point / expression still evaluates to the 1st solve.
So user-held objects return numbers from an earlier solve that contradict the stored Gram matrix and duals.
"""
import sys, warnings
warnings.filterwarnings("ignore")
sys.path.insert(0, sys.argv[1])
import numpy as np
from PEPit import PEP
from PEPit.functions import SmoothStronglyConvexFunction

pep = PEP()
f = pep.declare_function(SmoothStronglyConvexFunction, L=1., mu=.1)
xs = f.stationary_point()
x0 = pep.set_initial_point()
ic1 = (x0 - xs) ** 2 <= 1
pep.set_initial_condition(ic1)
x1 = x0 - f.gradient(x0)
metric = f(x1) - f(xs)
pep.set_performance_metric(metric)
dist = (x0 - xs) ** 2

v1 = pep.solve(verbose=0)
dist1, metric1 = dist.eval(), metric.eval()

pep.list_of_constraints.remove(ic1)
ic2 = (x0 - xs) ** 2 <= 9
pep.set_initial_condition(ic2)


def tracer(frame, event, arg):
    if event == "call" and frame.f_code.co_name == "_eval_points_and_function_values":
        sys.settrace(None)
        raise KeyboardInterrupt
    return None


interrupted = False
sys.settrace(tracer)
try:
    pep.solve(verbose=0)
except KeyboardInterrupt:
    interrupted = True
finally:
    sys.settrace(None)

G = pep.G_value
dist_from_G = G[x0.counter, x0.counter] - 2 * G[x0.counter, xs.counter] + G[xs.counter, xs.counter]
try:
    ic2_dual = ic2.eval_dual()
except ValueError:
    ic2_dual = None
print("interrupted:", interrupted, " first solve:", v1)
print("||x0-xs||^2 by evaluating the held expression:", dist.eval(), "(1st solve gave", dist1, ")")
print("||x0-xs||^2 according to pep.G_value         :", dist_from_G)
print("metric.eval():", metric.eval(), "(1st solve gave", metric1, ")")
print("multiplier of the NEW condition (2nd solve)  :", ic2_dual)
if interrupted and ic2_dual is not None and abs(dist.eval() - dist1) < 1e-9 and abs(dist_from_G - dist.eval()) > 1:
    print("VIOLATION: after the interrupted re-solve, duals/G_value are those of solve 2 but points and "
          "expressions still evaluate to solve 1")
    sys.exit(1)
sys.exit(0)
