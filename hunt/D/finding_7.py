"""C16: an INFEASIBLE model for which the solver explicitly stops without an optimum still gets a number from solve().

Model: two points with ||x0||^2 == 0 and <x0, x1> == 1 (impossible for a PSD Gram matrix: weakly infeasible).
  * solver=CLARABEL: cvxpy status is 'user_limit' (iteration limit, no optimum found) -> solve() returns about -2e9;
  * solver=SCS (the default): status 'optimal_inaccurate' -> solve() returns about -5e3.
PEP.solve only tests `wc_value is None`; the solver status is never looked at, so any status for which cvxpy leaves
variable values in place (user_limit, optimal_inaccurate) is turned into a 'worst-case guarantee', and afterwards all
points / constraints evaluate to these meaningless numbers (the 'constraint' <x0,x1> == 1 evaluates far from 0).
"""
import sys, warnings, io, contextlib
warnings.filterwarnings("ignore")
sys.path.insert(0, sys.argv[1])
from PEPit import PEP

bad = []
for solver in ("CLARABEL", "SCS"):
    pep = PEP()
    x0 = pep.set_initial_point()
    x1 = pep.set_initial_point()
    c0 = (x0 ** 2 == 0)
    c1 = (x0 * x1 == 1)
    pep.add_constraint(c0)
    pep.add_constraint(c1)
    pep.set_performance_metric(-(x1 ** 2))
    buf = io.StringIO()
    with contextlib.redirect_stdout(buf):
        value = pep.solve(verbose=0, solver=solver)
    status = pep.wrapper.prob.status
    print("solver", solver, ": cvxpy status =", status, "; solve() returned", value)
    if value is not None:
        print("    <x0,x1>-1 evaluates to", c1.eval(), "; ||x0||^2 to", c0.eval(), "; x1.eval() =", x1.eval())
        if status not in ("optimal",):
            bad.append((solver, status, value))
if bad:
    print("VIOLATION: infeasible model, solver status not 'optimal', yet solve() returned a number:", bad)
    sys.exit(1)
sys.exit(0)
