"""C13: constraints held by the user across solves keep the multiplier of an EARLIER solve after a successful re-solve.

(a) class (interpolation) constraints are re-created at every solve, so a Constraint taken from
    f.list_of_class_constraints / f.tables_of_constraints after solve #1 is silently orphaned by solve #2 and its
    eval_dual() keeps returning the multiplier of solve #1 (the live twin has another value);
(b) a condition removed from the model before solve #2 keeps returning the multiplier of solve #1 although it is
    not part of the latest solve (a newly built equivalent model raises the 'must be solved' ValueError).
"""
import sys, warnings
warnings.filterwarnings("ignore")
sys.path.insert(0, sys.argv[1])
from PEPit import PEP
from PEPit.functions import SmoothStronglyConvexFunction

pep = PEP()
f = pep.declare_function(SmoothStronglyConvexFunction, L=1., mu=.1)
xs = f.stationary_point()
fs = f(xs)
x0 = pep.set_initial_point()
ic1 = (x0 - xs) ** 2 <= 1
pep.set_initial_condition(ic1)
x1 = x0 - f.gradient(x0)
pep.set_performance_metric(f(x1) - fs)

v1 = pep.solve(verbose=0)
table1 = f.tables_of_constraints["smoothness_strong_convexity"]
held = [c for c in f.list_of_class_constraints]           # objects held by the user after solve 1
held_duals_1 = [c.eval_dual() for c in held]
ic1_dual_1 = ic1.eval_dual()

# Edit: replace the initial condition (radius 1 -> radius 3), solve again (succeeds)
pep.list_of_constraints.remove(ic1)
ic2 = (x0 - xs) ** 2 <= 9
pep.set_initial_condition(ic2)
v2 = pep.solve(verbose=0)
live = f.list_of_class_constraints
held_duals_2 = [c.eval_dual() for c in held]
live_duals_2 = [c.eval_dual() for c in live]
print("solve1 ->", v1, " solve2 ->", v2)
print("held class constraints are the live ones:", all(a is b for a, b in zip(held, live)))
print("held class duals after solve 2 :", [round(float(d), 6) for d in held_duals_2])
print("live class duals after solve 2 :", [round(float(d), 6) for d in live_duals_2])
print("held class duals after solve 1 :", [round(float(d), 6) for d in held_duals_1])
try:
    ic1_dual_2 = ic1.eval_dual()
    print("removed condition eval_dual after solve 2:", ic1_dual_2, "(solve 1 gave", ic1_dual_1, ")")
except ValueError as e:
    ic1_dual_2 = None
    print("removed condition eval_dual raises:", e)

bad_a = held_duals_2 == held_duals_1 and max(abs(a - b) for a, b in zip(held_duals_2, live_duals_2)) > 1e-2
bad_b = ic1_dual_2 is not None and ic1_dual_2 == ic1_dual_1
if bad_a or bad_b:
    print("VIOLATION: user-held constraints evaluate to multipliers of the earlier solve "
          "(class constraints: {}, removed condition: {})".format(bad_a, bad_b))
    sys.exit(1)
sys.exit(0)
