"""
C07 - bregman_proximal_step records TWO unrelated samples of the mirror map at the very point it creates when the
minimised function is a sum containing the mirror map (x = argmin gamma*(f+h)(y) + D_h(y; x0), a legal model).

The step does   min_function.add_point((x, gx, fx))   -> composite logic gives h the sample (x, gx - gf, fx - ff)
and then        mirror_map.add_point((x, sx, hx))      -> h receives a second sample at x with a fresh value hx
                                                          and the gradient sx = sx0 - gamma*gx.
h is declared differentiable (reuse_gradient=True), still it ends up with two function values and two gradients at x:
the objects returned by the step (sx, hx) are not the ones returned by h.gradient(x) / h.value(x), and
(f+h)(x) is not f(x) + hx.  The SDP lets the two gradients differ (worst case of ||sx - h.gradient(x)||^2 > 0).
"""
import sys
import warnings

warnings.filterwarnings("ignore")
sys.path.insert(0, sys.argv[1])

from PEPit import PEP
from PEPit.functions import ConvexFunction, StronglyConvexFunction
from PEPit.primitive_steps import bregman_proximal_step
from PEPit.tools.dict_operations import prune_dict

problem = PEP()
f = problem.declare_function(ConvexFunction, name="f")
h = problem.declare_function(StronglyConvexFunction, mu=1., reuse_gradient=True, name="h")  # differentiable mirror map
F = f + h

x0 = problem.set_initial_point()
sx0 = h.gradient(x0)
gamma = 1.
x, sx, hx, gx, fx = bregman_proximal_step(sx0, h, F, gamma)

samples = [t for t in h.list_of_points if prune_dict(t[0].decomposition_dict) == prune_dict(x.decomposition_dict)]
print("differentiable h: number of samples recorded at x      :", len(samples))
values = [prune_dict(t[2].decomposition_dict) for t in samples]
grads = [prune_dict(t[1].decomposition_dict) for t in samples]
two_values = any(v != values[0] for v in values)
two_grads = any(g != grads[0] for g in grads)
print("distinct function values of h at x                      :", two_values)
print("distinct gradients of h (reuse_gradient=True) at x      :", two_grads)

gh_query = h.gradient(x)
hv_query = h.value(x)
route_mismatch = (prune_dict(gh_query.decomposition_dict) != prune_dict(sx.decomposition_dict)
                  or prune_dict(hv_query.decomposition_dict) != prune_dict(hx.decomposition_dict))
print("h.gradient(x)/h.value(x) differ from (sx, hx) of the step:", route_mismatch)
sum_mismatch = prune_dict(F.value(x).decomposition_dict) != prune_dict((f.value(x) + hx).decomposition_dict)
print("(f+h)(x) != f(x) + hx                                   :", sum_mismatch)

# Numerical consequence: the two gradients of the differentiable h at x are allowed to differ.
problem.set_initial_condition(sx0 ** 2 <= 1)
problem.set_initial_condition(gx ** 2 <= 1)
problem.set_initial_condition(gh_query ** 2 <= 1)
problem.set_performance_metric((sx - gh_query) ** 2)
tau = problem.solve(verbose=int(sys.argv[2]) if len(sys.argv) > 2 else 0)
print("worst case of ||sx - h.gradient(x)||^2 (0 for a consistent model):", tau)

violated = (len(samples) >= 2 and (two_values or two_grads) and route_mismatch and tau is not None and tau > 1e-3)
print("VIOLATION" if violated else "no violation")
sys.exit(1 if violated else 0)
