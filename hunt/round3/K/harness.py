import sys, os, io, contextlib
import numpy as np

REPO = os.environ.get("REPO", "/tmp/hunt/repoK")
sys.path.insert(0, REPO)
sys.path.insert(0, "/tmp/hunt/outK/fake")

import mosek  # the fake
import PEPit
from PEPit import PEP, Point, Expression, Constraint, PSDMatrix
from PEPit.tools.expressions_to_matrices import expression_to_matrices, expression_to_sparse_matrices


def selftest_fake():
    """finite-difference check of the y convention of the fake"""
    for sense in (mosek.objsense.maximize, mosek.objsense.minimize):
        for bk in (mosek.boundkey.up, mosek.boundkey.fx, mosek.boundkey.lo):
            def run(rhs):
                t = mosek.Env().Task()
                t.appendvars(2)
                t.putvarbound(0, mosek.boundkey.ra, -3., 3.)
                t.putvarbound(1, mosek.boundkey.ra, -3., 3.)
                t.appendcons(1)
                t.putaijlist([0, 0], [0, 1], [1., 2.])
                t.putconbound(0, bk, rhs, rhs)
                s = 1. if (sense == mosek.objsense.maximize) == (bk != mosek.boundkey.lo) else -1.
                if bk == mosek.boundkey.fx:
                    s = 1.
                t.putclist([0, 1], [s * 1., s * 1.])
                t.putobjsense(sense)
                t.optimize()
                xx = np.array(t.getxx(mosek.soltype.itr))
                return s * (xx[0] + xx[1]), t.gety(mosek.soltype.itr)[0]
            v0, y0 = run(1.0)
            v1, _ = run(1.001)
            print(sense, bk, "y", y0, "fd", (v1 - v0) / 0.001)


def residual_of_certificate(problem, ntrials=3, seed=0):
    """Independent check of the identity objective - tau = sum lam c - <S,G> - sum <M, LMI> at random (P, F)."""
    rng = np.random.default_rng(seed)
    cons = problem._list_of_constraints_sent_to_wrapper
    psds = problem._list_of_psd_sent_to_wrapper
    n = Point.counter
    S = problem.residual
    lam = [c.eval_dual() for c in cons]
    Ms = [p.eval_dual() for p in psds]
    # save values
    saved_p = [p._value for p in Point.list_of_leaf_points]
    saved_e = [e._value for e in Expression.list_of_leaf_expressions]
    vals = []
    for t in range(ntrials + 1):
        if t == 0:
            P = np.zeros((n, n)); F = np.zeros(Expression.counter)
        else:
            P = rng.standard_normal((n, n)); F = rng.standard_normal(Expression.counter)
        for p in Point.list_of_leaf_points:
            p._value = P[:, p.counter]
        for e in Expression.list_of_leaf_expressions:
            e._value = F[e.counter]
        G = P.T @ P
        rhs = sum(l * c.expression.eval() for l, c in zip(lam, cons)) - np.sum(S * G)
        for M, p in zip(Ms, psds):
            rhs -= np.sum(M * np.array([[x.eval() for x in row] for row in p.matrix_of_expressions]))
        lhs = problem.objective.eval()
        vals.append(lhs - rhs)  # should be the constant tau
    for p, v in zip(Point.list_of_leaf_points, saved_p):
        p._value = v
    for e, v in zip(Expression.list_of_leaf_expressions, saved_e):
        e._value = v
    tau0 = vals[0]
    err = max(abs(v - tau0) for v in vals[1:])
    mineig = min([np.min(np.linalg.eigvalsh((S + S.T) / 2))] + [np.min(np.linalg.eigvalsh((M + M.T) / 2)) for M in Ms])
    minlam = min([l for l, c in zip(lam, cons) if c.equality_or_inequality == "inequality"] + [0])
    return tau0, err, mineig, minlam


def primal_check(problem):
    cons = problem._list_of_constraints_sent_to_wrapper
    psds = problem._list_of_psd_sent_to_wrapper
    worst = 0
    for c in cons:
        v = c.eval()
        worst = max(worst, v if c.equality_or_inequality == "inequality" else abs(v))
    for p in psds:
        V = p.eval()
        worst = max(worst, -np.min(np.linalg.eigvalsh((V + V.T) / 2)), np.max(np.abs(V - V.T)))
    G = problem.G_value
    P = np.array([p.eval() for p in Point.list_of_leaf_points]).T
    gram_err = np.max(np.abs(P.T @ P - G)) if G.size else 0
    metrics = [m.eval() for m in problem.list_of_performance_metrics]
    return worst, gram_err, min(metrics), problem.objective.eval()


def run(builder, wrapper, quiet=True, **kw):
    PEPit.pep.PEP  # noqa
    problem = builder()
    buf = io.StringIO()
    mosek.LOG.clear()
    if wrapper == "cvxpy":
        kw.setdefault("solver", "CLARABEL")
    with contextlib.redirect_stdout(buf):
        val = problem.solve(wrapper=wrapper, verbose=1, **kw)
    out = dict(value=val, wrapper=problem.wrapper_name, problem=problem, log=buf.getvalue())
    if val is not None:
        out["cert"] = residual_of_certificate(problem)
        out["primal"] = primal_check(problem)
    return out


def compare(builder, name="", **kw):
    res = {}
    bad = False
    for w in ("cvxpy", "mosek"):
        try:
            r = run(builder, w, **kw)
        except Exception as e:
            import traceback
            print("[{}] {}: EXCEPTION {}: {}".format(name, w, type(e).__name__, e))
            bad = True
            continue
        res[w] = r
        fm = lambda t: None if t is None else tuple(float("%.4g" % v) for v in t)
        print("[{}] {:6s} used={} value={:.8f} cert(tau0-val,err,mineig,minlam)={} primal(worst,gram,minmetric-obj,obj)={}".format(
            name, w, r["wrapper"], r["value"] if r["value"] is not None else float("nan"),
            fm((r["cert"][0] - r["value"],) + tuple(r["cert"][1:])) if "cert" in r else None,
            fm((r["primal"][0], r["primal"][1], r["primal"][2] - r["primal"][3], r["primal"][3])) if "primal" in r else None))
    return res


if __name__ == "__main__":
    selftest_fake()
