import warnings; warnings.filterwarnings("ignore")
from harness import *
from PEPit.functions import SmoothStronglyConvexFunction, ConvexFunction, SmoothConvexFunction, ConvexQGFunction, RsiEbFunction
from PEPit.primitive_steps import proximal_step

def qg():
    p = PEP()
    f = p.declare_function(ConvexQGFunction, L=1.)
    g = p.declare_function(SmoothConvexFunction, L=1.)
    x0 = p.set_initial_point()
    x1 = x0 - 0.5 * g.gradient(x0)
    gx, fx = f.oracle(x1)
    p.set_initial_condition(x0 ** 2 <= 1)
    p.set_initial_condition(gx ** 2 <= 1)
    p.set_performance_metric(g(x0) - g(x1) + 0.1 * (fx) )
    p.add_constraint(fx <= 1)
    p.add_constraint(g(x0) <= 1); p.add_constraint(g(x1) >= -1)
    return p

def lmi_twice_and_zero():
    p = PEP()
    f = p.declare_function(SmoothStronglyConvexFunction, L=1., mu=.1)
    xs = f.stationary_point(); fs = f(xs)
    x0 = p.set_initial_point()
    g0, f0 = f.oracle(x0)
    x1 = x0 - g0
    t = Expression()
    m = p.add_psd_matrix([[t + 0 * f0, (x0 - xs) * g0 + 0 * (g0 * g0)], [0.5 * ((x0 - xs) * g0) + 0.5 * (g0 * (x0 - xs)), True]])
    p.add_psd_matrix(m)
    p.add_constraint(t <= 2)
    p.add_constraint((x0 * g0) - (g0 * x0) + (x0 - xs) ** 2 <= 1)
    p.set_performance_metric(f(x1) - fs)
    return p

def one_point():
    p = PEP()
    x0 = p.set_initial_point()
    t = Expression()
    p.add_constraint(x0 ** 2 <= 2)
    p.add_psd_matrix([[1., t], [t, x0 ** 2]])
    p.set_performance_metric(t)
    return p

def infeasible():
    p = PEP()
    f = p.declare_function(SmoothConvexFunction, L=1.)
    x0 = p.set_initial_point()
    p.add_constraint(x0 ** 2 <= -1)
    p.set_performance_metric(f(x0))
    return p

def unbounded():
    p = PEP()
    f = p.declare_function(SmoothConvexFunction, L=1.)
    xs = f.stationary_point()
    x0 = p.set_initial_point()
    p.set_performance_metric(f(x0) - f(xs))
    return p

def objective_reuse():
    p = PEP()
    f = p.declare_function(SmoothConvexFunction, L=1.)
    xs = f.stationary_point()
    x0 = p.set_initial_point()
    p.set_initial_condition((x0 - xs) ** 2 <= 1)
    p.set_performance_metric(f(x0) - f(xs))
    buf = io.StringIO()
    with contextlib.redirect_stdout(buf):
        p.solve(wrapper="cvxpy", solver="CLARABEL", verbose=0)
    p.add_constraint(p.objective <= 0.25)
    x1 = x0 - f.gradient(x0)
    p.set_performance_metric(f(x1) - f(xs) + 0.2)
    return p

for n in ["qg", "lmi_twice_and_zero", "one_point", "infeasible", "unbounded", "objective_reuse"]:
    compare(globals()[n], n)
compare(one_point, "one_point+trace", dimension_reduction_heuristic="trace")
compare(objective_reuse, "objective_reuse+logdet1", dimension_reduction_heuristic="logdet1")
