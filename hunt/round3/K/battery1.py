import warnings
warnings.filterwarnings("ignore")
from harness import *
from PEPit.functions import (SmoothStronglyConvexFunction, ConvexFunction, SmoothStronglyConvexQuadraticFunction,
                             ConvexLipschitzFunction, SmoothConvexFunction)
from PEPit.operators import LinearOperator, SymmetricLinearOperator, LipschitzStronglyMonotoneOperator
from PEPit.primitive_steps import proximal_step, exact_linesearch_step, inexact_gradient_step


def gd():
    p = PEP()
    f = p.declare_function(SmoothStronglyConvexFunction, L=1., mu=.1)
    xs = f.stationary_point(); fs = f(xs)
    x0 = p.set_initial_point()
    p.set_initial_condition((x0 - xs) ** 2 <= 1)
    x = x0
    for _ in range(2):
        x = x - 1.0 * f.gradient(x)
    p.set_performance_metric(f(x) - fs)
    return p


def lmis_order():
    p = PEP()
    f = p.declare_function(SmoothStronglyConvexFunction, L=1., mu=.1)
    xs = f.stationary_point(); fs = f(xs)
    x0 = p.set_initial_point()
    g0, f0 = f.oracle(x0)
    x1 = x0 - g0
    g1, f1 = f.oracle(x1)
    # a PSDMatrix created early but attached to the function (sent late), others on the pep
    t = Expression(); s = Expression(); u = Expression()
    late = f.add_psd_matrix([[t, (x0 - xs) * g0, 0.], [(x0 - xs) * g0, 1., g1 * g0], [0., g1 * g0, 2.]])
    m1 = p.add_psd_matrix([[s, f0 - fs], [f0 - fs, 1.]])
    m2 = p.add_psd_matrix([[u - (x0 - xs) ** 2]])
    p.set_initial_condition((x0 - xs) ** 2 <= 1)
    p.add_constraint(t <= 2)
    p.add_constraint(s + u <= 3)
    p.add_constraint(u == 1.)
    p.set_performance_metric(f1 - fs + 0.3 * (f0 - fs))
    p.set_performance_metric(2 * (f1 - fs) + 0.1)
    return p


def weird_exprs():
    p = PEP()
    f = p.declare_function(SmoothStronglyConvexFunction, L=2., mu=.5)
    xs = f.stationary_point(); fs = f(xs)
    x0 = p.set_initial_point()
    g0, f0 = f.oracle(x0)
    x1 = x0 - 0.3 * g0
    g1, f1 = f.oracle(x1)
    x0 = x0 - xs; x1 = x1 - xs
    e = (x0 * g0) + 2 * (g0 * x0) + 0.5 * x0 ** 2 + (g1 * x0) - 0.25 * (x0 * g1) + 3 - 1.5 * (f0 - fs) + (g1 * x0) * 0.2
    p.add_constraint(e <= 7.5)
    p.add_constraint(x0 ** 2 + 0.1 == 1.1 + 0 * f0)
    p.add_constraint((g0 * g1) - (g1 * g0) + f1 <= f0 + 1)
    p.set_performance_metric(x1 ** 2 + 0.5 * (g1 * x1) + 0.5 * (x1 * g1) - 0.2)
    return p


def quad_linop():
    p = PEP()
    f = p.declare_function(SmoothStronglyConvexQuadraticFunction, L=1., mu=.1)
    M = p.declare_function(LinearOperator, L=1.)
    h = p.declare_function(ConvexLipschitzFunction, M=1.)
    xs = f.stationary_point(); fs = f(xs)
    x0 = p.set_initial_point()
    p.set_initial_condition((x0 - xs) ** 2 <= 1)
    p.set_initial_condition(x0 ** 2 <= 2)
    x1 = x0 - f.gradient(x0)
    y = M.gradient(x1)
    z, _, hz = proximal_step(y, h, 0.5)
    w = M.T.gradient(z)
    x2 = x1 - 0.5 * f.gradient(x1) - 0.1 * w
    p.set_performance_metric(f(x2) - fs)
    p.set_performance_metric((x2 - xs) ** 2)
    return p


def partition():
    from PEPit.functions import BlockSmoothConvexFunction
    p = PEP()
    part = p.declare_block_partition(d=2)
    f = p.declare_function(BlockSmoothConvexFunction, partition=part, L=[1., 2.])
    xs = f.stationary_point(); fs = f(xs)
    x0 = p.set_initial_point()
    p.set_initial_condition((x0 - xs) ** 2 <= 1)
    g0 = f.gradient(x0)
    x1 = x0 - part.get_block(g0, 0)
    g1 = f.gradient(x1)
    x2 = x1 - 0.5 * part.get_block(g1, 1)
    p.set_performance_metric(f(x0) - f(x2))
    p.add_constraint(f(x0) - fs <= 3)
    return p


def leaf_metric():
    p = PEP()
    f = p.declare_function(SmoothConvexFunction, L=1.)
    xs = f.stationary_point(); fs = f(xs)
    x0 = p.set_initial_point()
    p.set_initial_condition((x0 - xs) ** 2 <= 1)
    p.add_constraint(fs == 0.)
    x1 = x0 - f.gradient(x0)
    p.set_performance_metric(f(x1))  # leaf expression
    return p


if __name__ == "__main__":
    import sys
    names = sys.argv[1:] or ["gd", "lmis_order", "weird_exprs", "quad_linop", "partition", "leaf_metric"]
    for n in names:
        compare(globals()[n], n)
        compare(globals()[n], n + "+trace", dimension_reduction_heuristic="trace")
        compare(globals()[n], n + "+logdet2", dimension_reduction_heuristic="logdet2")
