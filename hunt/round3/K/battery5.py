import warnings; warnings.filterwarnings("ignore")
from harness import *
from PEPit.functions import SmoothStronglyConvexFunction, ConvexFunction, SmoothConvexFunction
from PEPit.operators import LinearOperator, SymmetricLinearOperator, SkewSymmetricLinearOperator
from PEPit.primitive_steps import proximal_step

def asym(p):
    out = []
    for m in p._list_of_psd_sent_to_wrapper:
        n = m.shape[0]; d = 0
        for i in range(n):
            for j in range(n):
                a = expression_to_matrices(m[i,j]); b = expression_to_matrices(m[j,i])
                d = max(d, np.abs(a[0]-b[0]).max(), np.abs(a[1]-b[1]).max(), abs(a[2]-b[2]))
        out.append((m.shape, float(d)))
    return out

def mk(cls):
    def build():
        p = PEP()
        M = p.declare_function(cls, L=1.)
        f = p.declare_function(SmoothStronglyConvexFunction, L=1., mu=.1)
        xs = f.stationary_point()
        x0 = p.set_initial_point()
        p.set_initial_condition((x0 - xs) ** 2 <= 1)
        p.set_initial_condition(xs ** 2 <= 1)
        x = x0
        for _ in range(2):
            x = x - 0.5 * f.gradient(x) - 0.2 * M.gradient(x)
        if cls is LinearOperator:
            y = M.T.gradient(x - xs); z = M.T.gradient(x0)
            x = x - 0.1 * y + 0.05 * z
        p.set_performance_metric((x - xs) ** 2)
        return p
    return build

for cls in [LinearOperator, SymmetricLinearOperator, SkewSymmetricLinearOperator]:
    res = compare(mk(cls), cls.__name__)
    for w, r in res.items():
        print("   ", w, "LMI (shape, semantic asymmetry):", asym(r["problem"]))
