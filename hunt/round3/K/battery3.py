import warnings; warnings.filterwarnings("ignore")
from harness import *
from PEPit.functions import SmoothStronglyConvexFunction, ConvexFunction, SmoothConvexFunction
from PEPit.primitive_steps import proximal_step

def show(tag, p, val):
    c = residual_of_certificate(p) if val is not None else None
    pr = primal_check(p) if val is not None else None
    print(tag, "wrapper", p.wrapper_name, "val", val, "cert", None if c is None else tuple(float("%.3g"%v) for v in (c[0]-val,)+c[1:]),
          "primal", None if pr is None else tuple(float("%.3g"%v) for v in (pr[0], pr[1], pr[2]-pr[3])))

def quiet(f, *a, **k):
    buf = io.StringIO()
    with contextlib.redirect_stdout(buf):
        r = f(*a, **k)
    return r, buf.getvalue()

# scenario 1: re-solves with edits, mosek and cvxpy alternately, composite function constraints
p = PEP()
f = p.declare_function(SmoothStronglyConvexFunction, L=1., mu=.1)
g = p.declare_function(ConvexFunction)
h = f + g
hh = 2 * h + f
xs = h.stationary_point(); hs = h(xs)
x0 = p.set_initial_point()
p.set_initial_condition((x0 - xs) ** 2 <= 1)
x1, _, _ = proximal_step(x0 - 0.5 * f.gradient(x0), g, 0.5)
p.set_performance_metric((x1 - xs) ** 2)
c_h = (h(x1) - hs <= 0.4)
h.add_constraint(c_h)
t = Expression()
hh.add_psd_matrix([[t, (x1 - xs) * (x0 - xs)], [(x0 - xs) * (x1 - xs), 1.]]); m_hh = hh.list_of_psd[-1]
p.add_constraint(t <= 0.5)
for w in ["mosek", "cvxpy", "mosek"]:
    kw = dict(solver="CLARABEL") if w == "cvxpy" else {}
    mosek.LOG.clear()
    val, log = quiet(p.solve, wrapper=w, verbose=2 if w == "mosek" else 1, **kw)
    show("S1 " + w, p, val)
    ncons = sum(1 for c in p._list_of_constraints_sent_to_wrapper)
    print("   sent scalar:", ncons, "times c_h:", sum(c is c_h for c in p._list_of_constraints_sent_to_wrapper),
          "psd:", len(p._list_of_psd_sent_to_wrapper), "c_h dual", c_h.eval_dual(), "lmi dual eig", np.linalg.eigvalsh(m_hh.eval_dual()))
    if w == "mosek":
        print("   mosek rows:", sum(a[0] for n, a in mosek.LOG if n == "appendcons"), "barvars:", [a for n, a in mosek.LOG if n == "appendbarvars"])
    # edit between solves: new leaf expression & point & metric
    x2, _, _ = proximal_step(x1 - 0.5 * f.gradient(x1), g, 0.5)
    p.set_performance_metric((x2 - xs) ** 2 + 0.01)
    x1 = x2

# scenario 2: dimension reduction on mosek after re-solve + a 'primal' return
for heur in ["trace", "logdet3"]:
    for w in ["mosek", "cvxpy"]:
        kw = dict(solver="CLARABEL") if w == "cvxpy" else {}
        val, log = quiet(p.solve, wrapper=w, verbose=1, dimension_reduction_heuristic=heur, return_primal_or_dual="primal", **kw)
        show("S2 %s %s" % (heur, w), p, val)
        print("   ", [l for l in log.splitlines() if "eigenvalue" in l][-1])
