import warnings; warnings.filterwarnings("ignore")
from harness import *
from PEPit.functions import SmoothStronglyConvexFunction, ConvexFunction, SmoothConvexFunction
import random

def dense_from_sparse(expr):
    Ai, Aj, Av, ai, av, c = expression_to_sparse_matrices(expr)
    G = np.zeros((Point.counter, Point.counter)); F = np.zeros(Expression.counter)
    for i, j, v in zip(Ai, Aj, Av):
        assert i >= j, "upper entry"
        if i == j: G[i, i] += v
        else:
            G[i, j] += v; G[j, i] += v
    for i, v in zip(ai, av): F[int(i)] += v
    assert len(set(zip(Ai.tolist(), Aj.tolist()))) == len(Ai), "duplicate sparse entries"
    assert len(set(ai.tolist())) == len(ai)
    return G, F, c

# fuzz
rng = random.Random(1)
bad = 0
for trial in range(300):
    p = PEP()
    pts = [Point() for _ in range(4)]
    exs = [Expression() for _ in range(3)]
    def rp():
        q = rng.choice(pts) * rng.choice([1, -1, 0.5, 2, 0])
        for _ in range(rng.randint(0, 2)):
            q = q + rng.choice([1., -2., 0.25, 0]) * rng.choice(pts)
        return q
    e = 0 * exs[0] if rng.random() < .3 else rng.choice(exs) * 1
    for _ in range(rng.randint(1, 5)):
        k = rng.random()
        if k < .5: e = e + rng.choice([1, -1, .5, 3, 0]) * (rp() * rp())
        elif k < .7: e = e + rng.choice([1, -1, 2.5]) * rng.choice(exs)
        elif k < .8: e = e + rng.choice([1, -3.5, 0])
        elif k < .9: e = e - rp() ** 2
        else: e = e / rng.choice([2, -4])
    if rng.random() < .2: e = rng.choice(exs)
    Gd, Fd, cd = expression_to_matrices(e)
    Gs, Fs, cs = dense_from_sparse(e)
    # independent evaluation at random values
    P = np.random.randn(4, 4); Fv = np.random.randn(3)
    for q in pts: q._value = P[:, q.counter]
    for x in exs: x._value = Fv[x.counter]
    val = e.eval()
    vd = np.sum(Gd * (P.T @ P)) + Fd @ Fv + cd
    vs = np.sum(Gs * (P.T @ P)) + Fs @ Fv + cs
    if abs(val - vd) > 1e-9 or abs(val - vs) > 1e-9:
        bad += 1
        print("MISMATCH", trial, val, vd, vs, e.decomposition_dict)
print("fuzz mismatches:", bad)
