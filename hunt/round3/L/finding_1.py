"""C17 (low confidence): the LMI class condition of the linear-operator / quadratic classes is invisible to the
dual-table accessor and its PSDMatrix carries no name, although its multiplier is an active part of the certificate."""
import sys, warnings
warnings.filterwarnings("ignore")
sys.path.insert(0, sys.argv[1])
import numpy as np
from PEPit import PEP
from PEPit.operators import SymmetricLinearOperator

p = PEP()
A = p.declare_function(SymmetricLinearOperator, mu=0.1, L=1., name="A")
x0 = p.set_initial_point(name="x0")
y0 = A.gradient(x0)
x1 = x0 - y0
x1.set_name("x1")
y1 = A.gradient(x1)
p.set_initial_condition(x0 ** 2 <= 1)
p.set_performance_metric(y1 ** 2)
val = p.solve(verbose=0)
print("value", val)

duals = A.get_class_constraints_duals()
print("tables:", list(duals.keys()))
lmi = A.list_of_class_psd[0]
lmi_dual = lmi.eval_dual()
print("class LMI name:", lmi.get_name())
print("class LMI dual (norm %.4f):" % np.linalg.norm(lmi_dual)); print(lmi_dual)
scalar_mass = sum(np.abs(t.values.astype(float)).sum() for t in duals.values())
print("sum |multipliers| in the tables:", scalar_mass)

violated = (lmi.get_name() is None) and (np.linalg.norm(lmi_dual) > 1e-3) and \
           all("symmetric_linearity" == k for k in duals.keys())
print("VIOLATION" if violated else "ok")
sys.exit(1 if violated else 0)
