"""
A leaf Point created BEFORE the first PEP() (Point() is a public constructor, nothing forbids or detects it)
and used only inside matrix inequalities is silently identified with another leaf point of the model:
a finite but WRONG upper bound is returned, with a certificate that does not combine the sent LMIs.

PEP.__init__ resets Point.counter / Point.list_of_leaf_points. The early point keeps index 0 but is no longer in the
list of leaf points; the first leaf point created afterwards (here x_*) gets index 0 too. The wrapper addresses the
Gram matrix by index, so both objects are one column of G for the solver. When such a point appears in a scalar
constraint, solve() crashes in check_feasibility ("The PEP must be solved to evaluate Constraints!"); when it only
appears in LMIs, PEP._eval_points_and_function_values gives it a value by index (the loop over self.list_of_psd) and
nothing is noticed.

Model: one gradient step x1 on an L=1, mu=.1 function from |x0 - x_*|^2 <= 1, a point z with |z - x_*|^2 <= 4
(1x1 LMI), metric t with t^2 <= |x1 - z|^2 (2x2 LMI). True value: 0.9 + 2 = 2.9 (obtained when z is created after
PEP()). With z created before PEP(): 0.9 is returned as "upper bound".
"""
import sys
import warnings

warnings.simplefilter("ignore")
sys.path.insert(0, sys.argv[1] if len(sys.argv) > 1 else "/tmp/hunt/repoO")

import numpy as np
from PEPit import PEP, Point, Expression
from PEPit.functions import SmoothStronglyConvexFunction
from PEPit.tools.dict_operations import prune_dict, symmetrize_dict


def build(early):
    z = Point() if early else None        # created before the first PEP()
    pep = PEP()
    if not early:
        z = Point()                       # same model, z created after PEP()
    f = pep.declare_function(SmoothStronglyConvexFunction, L=1., mu=.1)
    xs = f.stationary_point()
    x0 = pep.set_initial_point()
    pep.set_initial_condition((x0 - xs) ** 2 <= 1)
    x1 = x0 - f.gradient(x0)
    pep.add_psd_matrix([[4 - (z - xs) ** 2]])            # |z - x_*|^2 <= 4
    dist2 = (x1 - z) ** 2
    t = Expression()
    pep.add_psd_matrix([[1, t], [t, dist2]])             # t^2 <= |x1 - z|^2
    pep.set_performance_metric(t)
    return pep, z, xs, x1


def certificate_error(pep, tau):
    comb = -np.dot(Point.list_of_leaf_points, np.dot(pep.residual, Point.list_of_leaf_points))
    for c in pep._list_of_constraints_sent_to_wrapper:
        comb += c.eval_dual() * c.expression
    for psd in pep._list_of_psd_sent_to_wrapper:
        comb -= np.sum(psd.eval_dual() * psd.matrix_of_expressions)
    rest = prune_dict(symmetrize_dict((pep.objective - tau - comb).decomposition_dict))
    return sum(abs(v) for v in rest.values())


# fresh process: the early point gets index 0, like the first leaf point created after PEP()
pep, z, xs, x1 = build(early=True)
tau = pep.solve(verbose=0)
err = certificate_error(pep, tau)
print("z created before PEP(): returned bound", tau)
print("   certificate identity error (sum of |left-over coefficients|): %.3g" % err)
print("   z.eval()   =", z.eval(), " (z in Point.list_of_leaf_points:",
      any(z is p for p in Point.list_of_leaf_points), ")")
print("   x_*.eval() =", xs.eval())

pep_ref, z2, xs2, x12 = build(early=False)
ref = pep_ref.solve(verbose=0)
err_ref = certificate_error(pep_ref, ref)
print("z created after PEP() : returned bound", ref, " certificate error %.3g" % err_ref)
print("   feasible instance with metric", np.linalg.norm(x12.eval() - z2.eval()),
      " |z - x_*| =", np.linalg.norm(z2.eval() - xs2.eval()))

violation = tau is not None and ref is not None and tau < ref - 1e-2
if violation:
    print("-> the bound returned for the model with the early point (%.4f) is below the value %.4f reached by a "
          "feasible instance of the same model: it is not an upper bound" % (tau, ref))
sys.exit(1 if violation else 0)
