import sys
import numpy as np


def setup(repo):
    sys.path.insert(0, repo)


def certificate_error(pep, tau, use_entries=False):
    """Independent reconstruction of objective - tau = sum l_i c_i - <S,G> - sum <Z_k, M_k>.
    returns (max abs coefficient error over G, F, const), min ineq multiplier, min eig residual, min eig lmi duals"""
    from PEPit.tools.expressions_to_matrices import expression_to_matrices
    from PEPit import Point, Expression
    n = Point.counter
    m = Expression.counter
    Gc = np.zeros((n, n))
    Fc = np.zeros(m)
    cc = 0.
    min_mult = np.inf
    for c in pep._list_of_constraints_sent_to_wrapper:
        Gw, Fw, k = expression_to_matrices(c.expression)
        lam = float(c.eval_dual())
        if c.equality_or_inequality == "inequality":
            min_mult = min(min_mult, lam)
        Gc += lam * Gw
        Fc += lam * Fw
        cc += lam * k
    Gc -= (pep.residual + pep.residual.T) / 2
    min_lmi = np.inf
    for psd in pep._list_of_psd_sent_to_wrapper:
        Z = psd.eval_dual()
        if use_entries and psd.entries_dual_variable_value is not None:
            Z = psd.entries_dual_variable_value
        min_lmi = min(min_lmi, np.min(np.linalg.eigvalsh((psd.eval_dual() + psd.eval_dual().T) / 2)))
        for i in range(psd.shape[0]):
            for j in range(psd.shape[1]):
                Gw, Fw, k = expression_to_matrices(psd[i, j])
                Gc -= Z[i, j] * Gw
                Fc -= Z[i, j] * Fw
                cc -= Z[i, j] * k
    # should equal objective - tau
    Fo = np.zeros(m)
    Fo[pep.objective.counter] = 1
    err = max(np.max(np.abs(Gc)) if n else 0., np.max(np.abs(Fc - Fo)), abs(cc + tau))
    min_res = np.min(np.linalg.eigvalsh(pep.residual)) if n else 0.
    return err, min_mult, min_res, min_lmi


def primal_error(pep, value):
    from PEPit import Point
    pts = Point.list_of_leaf_points
    P = np.array([p.eval() for p in pts]).T
    G = pep.G_value
    w, V = np.linalg.eigh(G)
    Gp = V @ np.diag(np.maximum(w, 0)) @ V.T
    gram_err = np.max(np.abs(P.T @ P - Gp)) if len(pts) else 0.
    cons_err = 0.
    for c in pep._list_of_constraints_sent_to_wrapper:
        v = c.eval()
        cons_err = max(cons_err, v if c.equality_or_inequality == "inequality" else abs(v))
    lmi_err = 0.
    for psd in pep._list_of_psd_sent_to_wrapper:
        M = psd.eval()
        lmi_err = max(lmi_err, -np.min(np.linalg.eigvalsh((M + M.T) / 2)), np.max(np.abs(M - M.T)))
    obj_err = abs(min(m.eval() for m in pep.list_of_performance_metrics) - pep.objective.eval())
    return gram_err, cons_err, lmi_err, obj_err, abs(pep.objective.eval() - value)


def report(pep, label, **kw):
    tau = pep.solve(verbose=0, **kw)
    if tau is None:
        print(label, "-> None")
        return None
    e = certificate_error(pep, tau)
    e2 = certificate_error(pep, tau, use_entries=True)
    p = primal_error(pep, pep.objective.eval())
    print(label, "tau=%.6g" % tau, "cert_err=%.2e (entries %.2e) minmult=%.2e minres=%.2e minlmi=%.2e" % (e[0], e2[0], e[1], e[2], e[3]),
          "| gram=%.2e cons=%.2e lmi=%.2e obj=%.2e" % p[:4], "gap=%.2e" % (tau - pep.objective.eval()))
    return tau
