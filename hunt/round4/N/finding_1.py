"""
C05 / C11 -- the sparse (MOSEK) encoding of an expression computes "(weight + mirrored weight) / 2" in the
coefficient's own numpy type, so a numpy boolean (or a small numpy integer) coefficient on a squared norm <x, x> or on a
pair of mirrored keys (x, y), (y, x) is sent to MOSEK with another value than the one the expression denotes
(and than the one the dense / cvxpy encoding sends).

    np.True_ + np.True_ = True  (logical or)   ->  ||x||^2 is sent as 0.5 ||x||^2
    np.int8(100) + np.int8(100) = -56          ->  100 ||x||^2 is sent as -28 ||x||^2

A numpy boolean is what `i == j` gives as soon as i, j come from numpy (np.arange, array indices): a hand-built
Expression(is_leaf=False, decomposition_dict={(x_i, x_j): (i == j), ...}) is enough.
Python bools, ints and floats, np.float64 and np.int64 are encoded correctly.

Usage: finding_1.py <path to the PEPit checkout>.  Exit code 1 when the violation is observed.
"""
import sys
import types
import warnings
import importlib.machinery

warnings.filterwarnings("ignore")
sys.path.insert(0, sys.argv[1] if len(sys.argv) > 1 else ".")

import numpy as np
import cvxpy  # imported before the stand-in is installed, so that cvxpy does not see it

from PEPit import PEP, Point, Expression, Constraint
from PEPit.tools.expressions_to_matrices import expression_to_matrices, expression_to_sparse_matrices


def sparse_to_dense(expression):
    """Matrix denoted by the sparse (lower triangular, symmetric) encoding."""
    ind_i, ind_j, val, _, _, _ = expression_to_sparse_matrices(expression)
    G = np.zeros((Point.counter, Point.counter))
    for i, j, v in zip(ind_i, ind_j, val):
        G[int(i), int(j)] += v
        if i != j:
            G[int(j), int(i)] += v
    return G


violation = False

# ----------------------------------------------------------------------------------------------------------------------
# 1. The two translations of the same expression
# ----------------------------------------------------------------------------------------------------------------------
problem = PEP()
x = problem.set_initial_point()
y = problem.set_initial_point()
i = np.arange(2)[0]
j = np.arange(2)[0]

cases = {
    "||x||^2 with coefficient (i == j) [numpy bool]": {(x, x): (i == j)},
    "2<x,y> with mirrored keys and numpy bool coefficients": {(x, y): np.True_, (y, x): np.True_},
    "100 ||x||^2 with an np.int8 coefficient": {(x, x): np.int8(100)},
    "reference: python bool": {(x, x): True, (x, y): True, (y, x): True},
    "reference: np.int64 / np.float64": {(x, x): np.int64(1), (x, y): np.float64(1), (y, x): np.float64(1)},
}
for name, decomposition_dict in cases.items():
    expression = Expression(is_leaf=False, decomposition_dict=decomposition_dict)
    dense, _, _ = expression_to_matrices(expression)
    sparse = sparse_to_dense(expression)
    same = np.array_equal(dense, sparse)
    print("{:60s} dense {}  sparse {}  {}".format(name, dense.tolist(), sparse.tolist(), "ok" if same else "DIFFERENT"))
    if not same and not name.startswith("reference"):
        violation = True

# ----------------------------------------------------------------------------------------------------------------------
# 2. What the MOSEK task receives through PEP.solve(wrapper="mosek") (recording stand-in for the mosek module)
# ----------------------------------------------------------------------------------------------------------------------
class Stop(Exception):
    pass


class Namespace(object):
    def __getattr__(self, item):
        return item


class Task(object):
    def __init__(self):
        self.symmats = []
        self.numcon = 0
        self.numvar = 0
        self.rows = dict()

    def appendbarvars(self, dims): pass
    def appendvars(self, n): self.numvar += n
    def putvarbound(self, *args): pass
    def getnumcon(self): return self.numcon
    def getmaxnumvar(self): return self.numvar
    def appendcons(self, n): self.numcon += n
    def putaijlist(self, *args): pass
    def putclist(self, *args): pass
    def putobjsense(self, *args): pass
    def set_Stream(self, *args): pass
    def solutionsummary(self, *args): pass

    def appendsparsesymmat(self, dim, subi, subj, val):
        self.symmats.append((list(np.asarray(subi).tolist()), list(np.asarray(subj).tolist()),
                             list(np.asarray(val, dtype=float).tolist())))
        return len(self.symmats) - 1

    def putbaraij(self, row, barvar, sub, weights):
        self.rows.setdefault(row, dict())[barvar] = [self.symmats[s] for s in sub]

    def putconbound(self, row, key, lower, upper):
        self.rows.setdefault(row, dict())["bound"] = (key, lower, upper)

    def optimize(self, **kwargs):
        raise Stop()


class Env(object):
    task = None

    def Task(self, *args):
        Env.task = Task()
        return Env.task

    def checkoutlicense(self, feature): pass
    def expirylicenses(self): return 100


mosek = types.ModuleType("mosek")
mosek.__spec__ = importlib.machinery.ModuleSpec("mosek", None)
mosek.Env = Env
mosek.Error = type("Error", (Exception,), {})
for attribute in ["feature", "streamtype", "boundkey", "soltype", "objsense", "prosta"]:
    setattr(mosek, attribute, Namespace())
sys.modules["mosek"] = mosek

problem = PEP()
x = problem.set_initial_point()
y = problem.set_initial_point()
# ||x||^2 <= 1 and ||y||^2 <= 1; the first one written by hand with the coefficient (i == j)
ball_x = Constraint(Expression(is_leaf=False, decomposition_dict={(x, x): (i == j), 1: -1.}), "inequality")
problem.add_constraint(ball_x)
problem.add_constraint(y ** 2 <= 1)
problem.set_performance_metric(2 * (x * y))
try:
    problem.solve(wrapper="mosek", verbose=0)
except Stop:
    pass
finally:
    sys.modules.pop("mosek", None)

print("wrapper used:", problem.wrapper_name)
# Row 0 is the performance metric, row 1 is ||x||^2 <= 1, row 2 is ||y||^2 <= 1
row_x = Env.task.rows[1]
row_y = Env.task.rows[2]
print("MOSEK row of ||x||^2 <= 1 (numpy bool coefficient):", row_x[0], row_x["bound"])
print("MOSEK row of ||y||^2 <= 1 (written y ** 2 <= 1)    :", row_y[0], row_y["bound"])
coefficient_sent = row_x[0][0][2][0]
if coefficient_sent != 1.0:
    print("-> MOSEK receives {} ||x||^2 <= 1, i.e. the ball of radius sqrt(2): "
          "the worst case of 2<x,y> becomes 2.83 instead of 2 (value found by the cvxpy back-end).".format(coefficient_sent))
    violation = True

# The symbolic expression itself denotes ||x||^2 - 1 (this is what Expression.eval computes)
x._value = np.array([3., 0.])
print("Expression.eval of the constraint at x = (3, 0):", ball_x.expression.eval(), "(= 1 * 9 - 1)")

sys.exit(1 if violation else 0)
