"""Minimal stand-in for the `mosek` module: records the Task calls and solves the recorded SDP through cvxpy.
install() must be called AFTER cvxpy has been imported (so that cvxpy does not believe MOSEK is installed)."""
import sys
import types
import importlib.machinery

import numpy as np


def install(strict=True):
    import cvxpy as cp

    mod = types.ModuleType("mosek")
    mod.__spec__ = importlib.machinery.ModuleSpec("mosek", None)

    class Error(Exception):
        pass

    class _E(object):
        def __init__(self, **kw):
            self.__dict__.update(kw)

    mod.Error = Error
    mod.feature = _E(pton="pton")
    mod.streamtype = _E(log="log", msg="msg")
    mod.boundkey = _E(fr="fr", up="up", fx="fx", lo="lo", ra="ra")
    mod.soltype = _E(itr="itr")
    mod.objsense = _E(maximize="max", minimize="min")
    mod.prosta = _E(prim_infeas="prim_infeas", dual_infeas="dual_infeas",
                    prim_and_dual_infeas="prim_and_dual_infeas", prim_and_dual_feas="prim_and_dual_feas",
                    unknown="unknown")

    class Task(object):
        def __init__(self):
            self.calls = []
            self.bardims = []
            self.numvar = 0
            self.varbound = {}
            self.numcon = 0
            self.symmats = []  # (dim, i, j, v)
            self.baraij = {}  # (con, barvar) -> list of (symmat idx, weight)
            self.aij = {}  # (con, var) -> val
            self.conbound = {}
            self.c = {}
            self.barc = {}
            self.sense = None
            self.sol = None

        def _rec(self, name, *args):
            self.calls.append((name,) + tuple(args))

        def set_Stream(self, *a):
            pass

        def appendbarvars(self, dims):
            self._rec("appendbarvars", list(dims))
            self.bardims += [int(d) for d in dims]

        def appendvars(self, n):
            self._rec("appendvars", n)
            for k in range(self.numvar, self.numvar + n):
                self.varbound[k] = ("fx", 0.0, 0.0)  # MOSEK default: fixed at zero
            self.numvar += n

        def putvarbound(self, i, key, lo, up):
            self._rec("putvarbound", i, key, lo, up)
            assert 0 <= i < self.numvar
            self.varbound[i] = (key, lo, up)

        def getnumcon(self):
            return self.numcon

        def getmaxnumvar(self):
            return self.numvar

        def appendcons(self, n):
            self._rec("appendcons", n)
            self.numcon += n

        def appendsparsesymmat(self, dim, subi, subj, val):
            subi = np.asarray(subi)
            subj = np.asarray(subj)
            val = np.asarray(val)
            self._rec("appendsparsesymmat", dim, subi.tolist(), subj.tolist(), val.tolist(), str(val.dtype))
            assert subi.shape == subj.shape == val.shape
            if strict:
                assert np.all(subi >= subj), "only lower triangular part allowed"
                assert np.all(subi < dim) and np.all(subj >= 0)
                assert len(set(zip(subi.tolist(), subj.tolist()))) == len(subi), "duplicate entries"
            self.symmats.append((dim, subi.astype(int), subj.astype(int), val.astype(float)))
            return len(self.symmats) - 1

        def putbaraij(self, i, j, sub, weights):
            self._rec("putbaraij", int(i), int(j), list(sub), list(weights))
            assert 0 <= i < self.numcon and 0 <= j < len(self.bardims)
            for s in sub:
                assert self.symmats[s][0] == self.bardims[j], "dimension mismatch"
            self.baraij[(int(i), int(j))] = list(zip(sub, weights))

        def putaijlist(self, subi, subj, val):
            subi = np.asarray(subi)
            subj = np.asarray(subj)
            val = np.asarray(val)
            self._rec("putaijlist", subi.tolist(), subj.tolist(), val.tolist(), str(val.dtype))
            for i, j, v in zip(subi.tolist(), subj.tolist(), val.tolist()):
                assert 0 <= i < self.numcon and 0 <= j < self.numvar
                self.aij[(int(i), int(j))] = float(v)

        def putconbound(self, i, key, lo, up):
            self._rec("putconbound", int(i), key, lo, up)
            self.conbound[int(i)] = (key, lo, up)

        def putclist(self, subj, val):
            self._rec("putclist", np.asarray(subj).tolist(), np.asarray(val).tolist())
            for j, v in zip(np.asarray(subj).tolist(), np.asarray(val).tolist()):
                self.c[int(j)] = float(v)

        def putbarcj(self, j, sub, weights):
            self._rec("putbarcj", j, list(sub), list(weights))
            self.barc[j] = list(zip(sub, weights))

        def putobjsense(self, sense):
            self._rec("putobjsense", sense)
            self.sense = sense

        def solutionsummary(self, *a):
            pass

        # dense view ----------------------------------------------------------------------------------------------
        def _dense(self, idx):
            dim, si, sj, v = self.symmats[idx]
            M = np.zeros((dim, dim))
            for i, j, val in zip(si, sj, v):
                M[i, j] += val
                if i != j:
                    M[j, i] += val
            return M

        def row(self, i):
            """(dict barvar -> dense matrix, dense vector on x, bound)"""
            mats = {}
            for (ci, j), lst in self.baraij.items():
                if ci == i:
                    mats[j] = sum(w * self._dense(s) for s, w in lst)
            vec = np.zeros(self.numvar)
            for (ci, j), v in self.aij.items():
                if ci == i:
                    vec[j] = v
            return mats, vec, self.conbound.get(i, ("fx", 0.0, 0.0))

        # solve ---------------------------------------------------------------------------------------------------
        def optimize(self, **kwargs):
            self._rec("optimize", dict(kwargs))
            X = [cp.Variable((d, d), symmetric=True) for d in self.bardims]
            x = cp.Variable(self.numvar)
            cons = []
            psd_cons = []
            for Xj in X:
                psd_cons.append(Xj >> 0)
            cons += psd_cons
            for k, (key, lo, up) in self.varbound.items():
                if key == "fx":
                    cons.append(x[k] == lo)
            row_cons = []
            for i in range(self.numcon):
                mats, vec, (key, lo, up) = self.row(i)
                lhs = x @ vec
                for j, M in mats.items():
                    lhs = lhs + cp.sum(cp.multiply(X[j], M))
                if key == "up":
                    con = (lhs <= up)
                elif key == "fx":
                    con = (lhs == lo)
                elif key == "lo":
                    con = (lhs >= lo)
                else:
                    raise ValueError(key)
                row_cons.append(con)
            cons += row_cons
            cvec = np.zeros(self.numvar)
            for j, v in self.c.items():
                cvec[j] = v
            obj = x @ cvec
            for j, lst in self.barc.items():
                obj = obj + cp.sum(cp.multiply(X[j], sum(w * self._dense(s) for s, w in lst)))
            prob = cp.Problem(cp.Maximize(obj) if self.sense == "max" else cp.Minimize(obj), cons)
            prob.solve(solver="CLARABEL")
            self.prob = prob
            if prob.status in ("infeasible", "infeasible_inaccurate"):
                self.sol = dict(prosta="prim_infeas")
            elif prob.status in ("unbounded", "unbounded_inaccurate"):
                self.sol = dict(prosta="dual_infeas")
            else:
                sign = 1.0
                y = []
                for con, i in zip(row_cons, range(self.numcon)):
                    d = float(np.asarray(con.dual_value).ravel()[0])
                    key = self.conbound[i][0]
                    if key == "lo":
                        d = -d
                    y.append(d)
                if self.sense == "min":
                    y = [-v for v in y]
                    sign = -1.0
                self.sol = dict(prosta="prim_and_dual_feas",
                                xx=np.array(x.value).tolist(),
                                barx=[np.array(Xj.value) for Xj in X],
                                y=y,
                                bars=[-sign * np.array(c.dual_value) for c in psd_cons])
            if self.sol["prosta"] != "prim_and_dual_feas":
                self.sol.update(xx=[0.0] * self.numvar, barx=[np.zeros((d, d)) for d in self.bardims],
                                y=[0.0] * self.numcon, bars=[np.zeros((d, d)) for d in self.bardims])

        @staticmethod
        def _tril(M):
            n = M.shape[0]
            return [M[j + i, j] for j in range(n) for i in range(n - j)]

        def getbarxj(self, soltype, j):
            return self._tril(self.sol["barx"][j])

        def getbarsj(self, soltype, j):
            return self._tril(self.sol["bars"][j])

        def getxx(self, soltype):
            return list(self.sol["xx"])

        def gety(self, soltype):
            return list(self.sol["y"])

        def getprosta(self, soltype):
            return self.sol["prosta"]

    class Env(object):
        last_task = None

        def Task(self, *a):
            t = Task()
            Env.last_task = t
            mod.last_task = t
            return t

        def checkoutlicense(self, feature):
            pass

        def expirylicenses(self):
            return 100

    mod.Env = Env
    mod.Task = Task
    mod.last_task = None
    sys.modules["mosek"] = mod
    return mod


def uninstall():
    sys.modules.pop("mosek", None)
