"""C17 - a leaf function without any sample: after a solve, the pairwise tables do not exist at all
(KeyError), while the one-point tables of the same function exist with 0 columns.
With at least one sample every condition has its table."""
import sys, warnings
sys.path.insert(0, sys.argv[1] if len(sys.argv) > 1 else '.')
warnings.filterwarnings("ignore")
from PEPit import PEP
from PEPit.functions import ConvexLipschitzFunction, SmoothConvexFunction
from PEPit.operators import LinearOperator

bad = 0
for cls, kw in [(ConvexLipschitzFunction, dict(M=1.)), (SmoothConvexFunction, dict(L=1.)), (LinearOperator, dict(L=1.))]:
    shapes = {}
    for n_samples in (0, 1):
        pep = PEP()
        f = pep.declare_function(cls, **kw)
        x0 = pep.set_initial_point()
        pep.set_initial_condition(x0 ** 2 <= 1)
        if n_samples:
            g = f.gradient(x0)
            pep.add_constraint(g ** 2 <= 4)
        pep.set_performance_metric(x0 ** 2)
        value = pep.solve(verbose=0)
        shapes[n_samples] = {k: t.shape for k, t in f.get_class_constraints_duals().items()}
    print(cls.__name__, "1 sample:", shapes[1], "| no sample:", shapes[0])
    missing = set(shapes[1]) - set(shapes[0])
    if missing:
        print("   -> after a successful solve the table(s) {} do not exist for the function without sample".format(missing))
        bad += 1
if bad:
    print("\nVIOLATION: dual tables missing for no-sample leaf functions ({} class(es) shown)".format(bad))
    sys.exit(1)
print("no violation observed")
sys.exit(0)
