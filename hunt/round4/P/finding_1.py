"""C16 - invalid values of the dimension-reduction options are only noticed after the first SDP was solved:
solve() raises (TypeError / UFuncTypeError / cvxpy ValueError / SolverError), i.e. the model was never solved
successfully, yet constraints (and the dual tables of the functions) hand out dual numbers, while points and
expressions raise the 'must be solved' error."""
import sys, io, contextlib, warnings
sys.path.insert(0, sys.argv[1] if len(sys.argv) > 1 else '.')
warnings.filterwarnings("ignore")
from PEPit import PEP
from PEPit.functions import SmoothStronglyConvexFunction


def build():
    pep = PEP()
    f = pep.declare_function(SmoothStronglyConvexFunction, mu=.1, L=1.)
    xs = f.stationary_point()
    x0 = pep.set_initial_point()
    init = ((x0 - xs) ** 2 <= 1)
    pep.set_initial_condition(init)
    x1 = x0 - f.gradient(x0)
    pep.set_performance_metric((x1 - xs) ** 2)
    return pep, f, x0, init


def probe(label, fn):
    try:
        r = fn()
        return "NUMBER({})".format(r if not isinstance(r, dict) else {k: v.values.tolist() for k, v in r.items()})
    except Exception as e:
        return "{}: {}".format(type(e).__name__, e)


violations = 0
cases = [dict(dimension_reduction_heuristic="trace", tol_dimension_reduction="1e-4"),
         dict(dimension_reduction_heuristic="trace", tol_dimension_reduction=None),
         dict(dimension_reduction_heuristic="trace", tol_dimension_reduction=float("nan")),
         dict(dimension_reduction_heuristic="trace", tol_dimension_reduction=float("inf")),
         dict(dimension_reduction_heuristic="logdet2", eig_regularization="1e-3"),
         dict(dimension_reduction_heuristic="logdet2", eig_regularization=None),
         dict(dimension_reduction_heuristic="logdet2", eig_regularization=float("nan")),
         ]
for opts in cases:
    pep, f, x0, init = build()   # a fresh model: never solved successfully
    raised = None
    try:
        with contextlib.redirect_stdout(io.StringIO()):
            pep.solve(verbose=0, **opts)
    except Exception as e:
        raised = e
    print("options:", opts)
    print("   solve raised:", type(raised).__name__ if raised is not None else "nothing", "-", str(raised)[:90])
    point = probe("x0", x0.eval)
    dual = probe("init dual", init.eval_dual)
    table = probe("tables", f.get_class_constraints_duals)
    print("   x0.eval()                      ->", point[:100])
    print("   initial_condition.eval_dual()  ->", dual[:100])
    print("   f.get_class_constraints_duals()->", table[:140])
    if raised is not None and (dual.startswith("NUMBER") or table.startswith("NUMBER({'smooth")):
        violations += 1

if violations:
    print("\nVIOLATION: in {} case(s) solve() failed on an invalid option value (noticed only after the SDP was "
          "solved), and dual values are nevertheless readable on a model that was never successfully solved "
          "(primal accessors raise 'must be solved').".format(violations))
    sys.exit(1)
print("no violation observed")
sys.exit(0)
