"""C16 - invalid option values that are silently accepted (no error at all)."""
import sys, io, contextlib, warnings
sys.path.insert(0, sys.argv[1] if len(sys.argv) > 1 else '.')
warnings.filterwarnings("ignore")
from PEPit import PEP
from PEPit.functions import SmoothStronglyConvexFunction


def build():
    pep = PEP()
    f = pep.declare_function(SmoothStronglyConvexFunction, mu=.1, L=1.)
    xs = f.stationary_point()
    x0 = pep.set_initial_point()
    pep.set_initial_condition((x0 - xs) ** 2 <= 1)
    x1 = x0 - f.gradient(x0)
    pep.set_performance_metric((x1 - xs) ** 2)
    return pep


accepted = []
cases = [("negative tolerance (second SDP infeasible by construction)",
          dict(dimension_reduction_heuristic="trace", tol_dimension_reduction=-1.)),
         ("negative eigenvalue regularisation", dict(dimension_reduction_heuristic="logdet2", eig_regularization=-1.)),
         ("empty heuristic name", dict(dimension_reduction_heuristic="")),
         ("heuristic = 0", dict(dimension_reduction_heuristic=0)),
         ("heuristic = 'logdet' + non-ASCII digit", dict(dimension_reduction_heuristic="logdet٣")),
         ("verbose = -1 (documented values: 0, 1, 2)", dict(verbose=-1)),
         ("verbose = 2.5", dict(verbose=2.5)),
         ]
for label, opts in cases:
    pep = build()
    out = io.StringIO()
    try:
        with contextlib.redirect_stdout(out):
            value = pep.solve(**({"verbose": 1} | opts))
        status_lines = [l for l in out.getvalue().splitlines() if "Solver status" in l]
        print("{:65s} accepted, returned {} ; {}".format(label, value, status_lines[1:2]))
        accepted.append(label)
    except Exception as e:
        print("{:65s} rejected: {}: {}".format(label, type(e).__name__, str(e)[:80]))

if accepted:
    print("\nVIOLATION: {} invalid option value(s) accepted without any error".format(len(accepted)))
    sys.exit(1)
print("no violation observed")
sys.exit(0)
