"""C17 - a user name equal to an automatic label makes class-constraint names ambiguous:
(a) a function named "Function_1" next to the unnamed second function (automatic label Function_1):
    the class constraints of two different functions carry identical names;
(b) a point named "Point_1" recorded first, followed by an unnamed point (automatic label Point_1):
    the constraints of the ordered pairs (0, 1) and (1, 0) carry the same name and the dual table has two
    columns / rows with the same label, so neither the name nor the labels identify the pair."""
import sys, warnings
sys.path.insert(0, sys.argv[1] if len(sys.argv) > 1 else '.')
warnings.filterwarnings("ignore")
from PEPit import PEP
from PEPit.functions import SmoothStronglyConvexFunction, ConvexFunction, SmoothConvexFunction

bad = 0

# (a) function label
pep = PEP()
f0 = pep.declare_function(SmoothStronglyConvexFunction, mu=.1, L=1., name="Function_1")
f1 = pep.declare_function(SmoothConvexFunction, L=1.)  # unnamed: automatic label "Function_1" (second leaf function)
F = f0 + f1
xs = F.stationary_point()
x0 = pep.set_initial_point()
pep.set_initial_condition((x0 - xs) ** 2 <= 1)
x1 = x0 - 0.5 * F.gradient(x0)
pep.set_performance_metric((x1 - xs) ** 2)
value = pep.solve(verbose=0)
print("(a) solved, value", value)
print("    dual table headers:", [t.columns.name for t in f0.get_class_constraints_duals().values()],
      [t.columns.name for t in f1.get_class_constraints_duals().values()])
prefix0 = {c.get_name().split("_smoothness")[0].split("_convexity")[0] for c in f0.list_of_class_constraints}
prefix1 = {c.get_name().split("_smoothness")[0].split("_convexity")[0] for c in f1.list_of_class_constraints}
print("    function part of the constraint names of f0:", prefix0, " of f1:", prefix1)
if prefix0 == prefix1:
    print("    -> the names do not tell the two functions apart")
    bad += 1

# (b) point label
pep = PEP()
f = pep.declare_function(ConvexFunction)
x0 = pep.set_initial_point(name="Point_1")           # recorded first (position 0)
y0 = pep.set_initial_point()                         # unnamed, recorded second: automatic label "Point_1"
pep.set_initial_condition((x0 - y0) ** 2 <= 1)
gx, fx = f.oracle(x0)
gy, fy = f.oracle(y0)
pep.add_constraint(gx ** 2 <= 1)
pep.add_constraint(gy ** 2 <= 1)
pep.set_performance_metric(fx - fy)
value = pep.solve(verbose=0)
table = f.tables_of_constraints["convexity"]
duals = f.get_class_constraints_duals()["convexity"]
c01, c10 = table.iloc[0, 1], table.iloc[1, 0]
print("(b) solved, value", value)
print("    name of the constraint of pair (0, 1):", c01.get_name(), " dual", c01.eval_dual())
print("    name of the constraint of pair (1, 0):", c10.get_name(), " dual", c10.eval_dual())
print("    column labels:", list(duals.columns), " row labels:", list(duals.index))
if c01 is not c10 and c01.get_name() == c10.get_name():
    print("    -> two different constraints (different multipliers) with the same name; labels repeat")
    bad += 1

if bad:
    print("\nVIOLATION: class-constraint names do not identify function / pair ({} case(s))".format(bad))
    sys.exit(1)
print("no violation observed")
sys.exit(0)
