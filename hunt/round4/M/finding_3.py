"""C04, corner value L = inf in classes whose constructor announces 'L == np.inf implies no constraint'.
SmoothFunction(L=inf) and LipschitzOperator(L=inf) print that the class 'implies no constraint' (so the value is legal and
documented as the unconstrained class), but the generated condition contains the coefficient -inf (and 0 * ...), and
PEP.solve raises ValueError('Problem data contains NaN or Inf') instead of solving the model without that condition.
(SmoothConvexFunction / SmoothStronglyConvexFunction with L=inf do work: only 1/L appears there.)
The same happens for LipschitzStronglyMonotoneOperator(L=inf), whose message says it amounts to StronglyMonotoneOperator.
"""
import sys
sys.path.insert(0, sys.argv[1])
import warnings
warnings.filterwarnings("ignore")
import numpy as np
from PEPit import PEP
from PEPit.functions import SmoothFunction
from PEPit.operators import LipschitzOperator, LipschitzStronglyMonotoneOperator, StronglyMonotoneOperator


def model(cls, par):
    pep = PEP()
    A = pep.declare_function(cls, **par)
    x0 = pep.set_initial_point()
    x1 = pep.set_initial_point()
    g0 = A.gradient(x0)
    g1 = A.gradient(x1)
    pep.set_initial_condition((x0 - x1) ** 2 <= 1)
    pep.set_initial_condition(g0 ** 2 <= 1)
    pep.set_initial_condition(g1 ** 2 <= 1)
    # bounded whatever the class: <= 4
    pep.set_performance_metric((g0 - g1) ** 2)
    return pep.solve(verbose=0)


bad = False
print("StronglyMonotoneOperator(mu=.1) reference:", model(StronglyMonotoneOperator, dict(mu=.1)))
for label, cls, par, expected in [("SmoothFunction(L=inf)", SmoothFunction, dict(L=np.inf), 4.),
                                  ("LipschitzOperator(L=inf)", LipschitzOperator, dict(L=np.inf), 4.),
                                  ("LipschitzStronglyMonotoneOperator(mu=.1, L=inf)",
                                   LipschitzStronglyMonotoneOperator, dict(mu=.1, L=np.inf), None)]:
    try:
        v = model(cls, par)
        print(label, "->", v, "(expected about {})".format(expected))
        if expected is not None and (v is None or abs(v - expected) > 1e-2):
            bad = True
    except BaseException as e:
        print(label, "-> solve raised", type(e).__name__, ":", str(e)[:120])
        bad = True
sys.exit(1 if bad else 0)
