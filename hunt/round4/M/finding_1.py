"""C04, corner value mu = L.
SmoothStronglyConvexFunction(mu=L, L=L) is a legal member of the documented parameter range (0 <= mu <= L): the class
F_{L,L} contains exactly the functions L/2 ||x - c||^2 + const, and its interpolation condition is well defined
(g_i - g_j = L (x_i - x_j) and the usual inequality).  The generated condition divides by (1 - mu/L), so no constraint is
generated at all: PEP.solve raises ZeroDivisionError (python floats / ints) or, with numpy floats, sends an
infinite coefficient to the solver (ValueError 'Problem data contains NaN or Inf').
Expected: one gradient step of length 1/L lands on the minimiser, worst case ||x1 - xs||^2 = 0.
"""
import sys
sys.path.insert(0, sys.argv[1])
import warnings
warnings.filterwarnings("ignore")
import numpy as np
from PEPit import PEP
from PEPit.functions import SmoothStronglyConvexFunction


def wc(mu, L):
    pep = PEP()
    f = pep.declare_function(SmoothStronglyConvexFunction, mu=mu, L=L)
    xs = f.stationary_point()
    x0 = pep.set_initial_point()
    pep.set_initial_condition((x0 - xs) ** 2 <= 1)
    x1 = x0 - 1 / L * f.gradient(x0)
    pep.set_performance_metric((x1 - xs) ** 2)
    return pep.solve(verbose=0)


bad = False
print("reference mu=0.999, L=1 :", wc(0.999, 1.))
for label, mu, L in [("python floats mu=L=1.", 1., 1.), ("ints mu=L=2", 2, 2), ("numpy floats mu=L=1.", np.float64(1.), np.float64(1.))]:
    try:
        v = wc(mu, L)
        print(label, "->", v, "(expected 0)")
        if v is None or abs(v) > 1e-4:
            bad = True
    except BaseException as e:
        print(label, "-> solve raised", type(e).__name__, ":", str(e)[:120])
        bad = True
sys.exit(1 if bad else 0)
