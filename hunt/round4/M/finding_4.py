"""C04 / C15, objects created through the public constructors before PEP() is instantiated.
The constructors of the function classes and of BlockPartition are public and documented with examples that do not go
through a PEP (`block_partition = BlockPartition(d=5)`, `func1 = Function()`).  PEP.__init__ empties
Function.list_of_functions and BlockPartition.list_of_partitions, so a function / partition created just before PEP() is
silently forgotten: none of its class constraints, resp. none of the orthogonality relations between its blocks, is
imposed, and the value is the one of an unconstrained model (no error, no warning).
"""
import sys
sys.path.insert(0, sys.argv[1])
import warnings
warnings.filterwarnings("ignore")
from PEPit import PEP, BlockPartition
from PEPit.functions import SmoothConvexFunction


def gd(before):
    if before:
        f = SmoothConvexFunction(L=1.)
        pep = PEP()
    else:
        pep = PEP()
        f = SmoothConvexFunction(L=1.)
    x0 = pep.set_initial_point()
    xs = f.stationary_point()
    pep.set_initial_condition((x0 - xs) ** 2 <= 1)
    x1 = x0 - f.gradient(x0)
    pep.set_performance_metric(f(x1) - f(xs))
    v = pep.solve(verbose=0)
    return v, len(f.list_of_class_constraints)


def blocks(before):
    if before:
        part = BlockPartition(d=2)
        pep = PEP()
    else:
        pep = PEP()
        part = BlockPartition(d=2)
    x = pep.set_initial_point()
    a, b = part.get_block(x, 0), part.get_block(x, 1)
    pep.set_initial_condition(x ** 2 <= 1)
    pep.set_initial_condition(a ** 2 <= 1)
    pep.set_performance_metric(-(a * b))      # 0 for orthogonal blocks
    v = pep.solve(verbose=0)
    return v, len(part.list_of_constraints)


r2 = gd(True)   # really the first PEP() of the process
r1 = gd(False)
print("SmoothConvexFunction created after PEP():  value, #class constraints =", r1)
print("SmoothConvexFunction created before PEP(): value, #class constraints =", r2)
b1, b2 = blocks(False), blocks(True)
print("BlockPartition created after PEP():  value, #orthogonality constraints =", b1)
print("BlockPartition created before PEP(): value, #orthogonality constraints =", b2)
bad = (r2[0] is None or abs(r2[0] - r1[0]) > 1e-3) or (b2[0] is None or abs(b2[0] - b1[0]) > 1e-3)
sys.exit(1 if bad else 0)
