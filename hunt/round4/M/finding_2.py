"""C04, corner value M = inf in the Lipschitz function classes.
ConvexLipschitzFunction(M=inf) and SmoothConvexLipschitzFunction(L, M=inf) describe (smooth) convex functions without
bound on the subgradients (ConvexSupportFunction has M=inf as DEFAULT and skips the condition; these two classes do not).
The generated condition  ||g_i||^2 <= M^2  carries the constant inf into the SDP: with the default solver route the solve
of ConvexLipschitzFunction(M=inf) never returns (SCS spins at 100% CPU; stopped here after 60 s) and the one of
SmoothConvexLipschitzFunction(M=inf) raises SolverError, instead of giving the value of ConvexFunction /
SmoothConvexFunction (1.0 on this model).  No warning is printed.
"""
import sys, subprocess
repo = sys.argv[1]
if len(sys.argv) > 2:
    sys.path.insert(0, repo)
    import warnings
    warnings.filterwarnings("ignore")
    import numpy as np
    from PEPit import PEP
    from PEPit.functions import ConvexFunction, SmoothConvexFunction, ConvexLipschitzFunction, \
        SmoothConvexLipschitzFunction
    cls, par = {"ref1": (ConvexFunction, {}), "ref2": (SmoothConvexFunction, dict(L=1.)),
                "lip": (ConvexLipschitzFunction, dict(M=np.inf)),
                "slip": (SmoothConvexLipschitzFunction, dict(L=1., M=np.inf))}[sys.argv[2]]
    pep = PEP()
    f = pep.declare_function(cls, **par)
    x0 = pep.set_initial_point()
    x1 = pep.set_initial_point()
    g0 = f.gradient(x0)
    g1 = f.gradient(x1)
    pep.set_initial_condition((x0 - x1) ** 2 <= 1)
    pep.set_initial_condition(g0 ** 2 <= 1)
    pep.set_initial_condition(g1 ** 2 <= 1)
    pep.set_performance_metric(f(x1) - f(x0))   # <= g1.(x1 - x0) <= 1
    print("VALUE", pep.solve(verbose=0))
    sys.exit(0)


def run(case):
    try:
        out = subprocess.run([sys.executable, __file__, repo, case], capture_output=True, text=True, timeout=60)
    except subprocess.TimeoutExpired:
        return "NO ANSWER after 60 s (solver does not return)"
    for line in out.stdout.splitlines():
        if line.startswith("VALUE"):
            return float(line.split()[1]) if line.split()[1] != "None" else None
    return "solve raised: " + (out.stderr.strip().splitlines() or ["?"])[-1][:150]


bad = False
for ref, case, label in [("ref1", "lip", "ConvexLipschitzFunction(M=inf)"),
                         ("ref2", "slip", "SmoothConvexLipschitzFunction(L=1, M=inf)")]:
    r, v = run(ref), run(case)
    print("reference value:", r, "|", label, "->", v)
    if not isinstance(v, float) or not isinstance(r, float) or abs(v - r) > 1e-3:
        bad = True
sys.exit(1 if bad else 0)
