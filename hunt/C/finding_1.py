"""C05 (low confidence): a LinearOperator that is only applied forward (no M.T sample) cannot be handed to the solver.

LinearOperator.add_class_constraints always appends a second class LMI built on the samples of the adjoint M.T.
When M.T was never evaluated this LMI is 0x0, and PEP.solve raises while formulating the problem
(cvxpy back-end: ValueError from cp.Variable((0, 0), symmetric=True); MOSEK back-end: appendbarvars([0])).
So for this legal model none of the declared constraints / class constraints ever reaches the solver,
although the expected answer is simply L^2 (= 4).
"""
import sys, io, contextlib
sys.dont_write_bytecode = True
sys.path.insert(0, sys.argv[1])
import warnings; warnings.filterwarnings("ignore")
from PEPit import PEP
from PEPit.operators import LinearOperator

pep = PEP()
M = pep.declare_function(LinearOperator, L=2.)
x0 = pep.set_initial_point()
pep.set_initial_condition(x0 ** 2 <= 1)
y = M.gradient(x0)              # forward application only
pep.set_performance_metric(y ** 2)   # worst case should be L^2 = 4
try:
    with contextlib.redirect_stdout(io.StringIO()):
        value = pep.solve(verbose=0, solver="CLARABEL")
except Exception as e:
    print("solve() raised {}: {}".format(type(e).__name__, e))
    print("class LMIs generated:", [p.shape for p in M.list_of_class_psd])
    print("VIOLATION: a legal model (operator used forward only) is never handed to the solver")
    sys.exit(1)
print("solved, value =", value)
sys.exit(0 if abs(value - 4) < 1e-3 else 1)
