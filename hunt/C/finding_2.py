"""C15 (low confidence): one-block partition + BlockSmoothConvexFunction with the scalar L its constructor accepts.

BlockSmoothConvexFunction.__init__ only requires L to be a list when the partition has more than one block,
so (partition with d=1, L=1.) is accepted. At solve time add_class_constraints indexes self.L[k] and raises
TypeError: the one-block case is not "constrained block by block", the model cannot be solved at all
(the same model with L=[1.] solves and gives the smooth convex value 1/6).
"""
import sys, io, contextlib
sys.dont_write_bytecode = True
sys.path.insert(0, sys.argv[1])
import warnings; warnings.filterwarnings("ignore")
from PEPit import PEP
from PEPit.functions import BlockSmoothConvexFunction


def build(L):
    pep = PEP()
    part = pep.declare_block_partition(d=1)
    f = pep.declare_function(BlockSmoothConvexFunction, L=L, partition=part)
    xs = f.stationary_point()
    x0 = pep.set_initial_point()
    pep.set_initial_condition((x0 - xs) ** 2 <= 1)
    x1 = x0 - part.get_block(f.gradient(x0), 0)
    pep.set_performance_metric(f(x1) - f(xs))
    return pep


with contextlib.redirect_stdout(io.StringIO()):
    ref = build([1.]).solve(verbose=0, solver="CLARABEL")
print("d=1, L=[1.] ->", ref)
try:
    with contextlib.redirect_stdout(io.StringIO()):
        val = build(1.).solve(verbose=0, solver="CLARABEL")
except Exception as e:
    print("d=1, L=1.  -> solve() raised {}: {}".format(type(e).__name__, e))
    print("VIOLATION: constructor accepted the one-block scalar L, class constraints cannot be generated")
    sys.exit(1)
print("d=1, L=1.  ->", val)
sys.exit(0 if abs(val - ref) < 1e-6 else 1)
