"""C04 (number of recorded samples = 0): the linear-operator classes always emit their LMI, also when it is 0x0.
A LinearOperator used only forward (A.T never evaluated), or a Symmetric/SkewSymmetric operator declared and not
evaluated, makes PEP.solve raise instead of giving the worst case of the documented conditions
(here sup ||A x0||^2 s.t. ||x0||^2<=1, ||A||<=2, which is 4)."""
import sys, warnings
warnings.filterwarnings('ignore')
sys.path.insert(0, sys.argv[1])
from PEPit import PEP
from PEPit.operators import LinearOperator, SymmetricLinearOperator
from PEPit.functions import SmoothConvexFunction

bad = False
p = PEP()
A = p.declare_function(LinearOperator, L=2.)
x0 = p.set_initial_point()
p.set_initial_condition(x0 ** 2 <= 1)
p.set_performance_metric(A.gradient(x0) ** 2)
try:
    print('LinearOperator, forward only:', p.solve(verbose=0), '(expected 4)')
except Exception as e:
    bad = True
    print('LinearOperator, forward only: solve raised', repr(e))

p = PEP()
f = p.declare_function(SmoothConvexFunction, L=1.)
B = p.declare_function(SymmetricLinearOperator, mu=0., L=1.)   # declared, zero samples
xs = f.stationary_point()
x0 = p.set_initial_point()
p.set_initial_condition((x0 - xs) ** 2 <= 1)
x1 = x0 - f.gradient(x0)
p.set_performance_metric(f(x1) - f(xs))
try:
    print('unused SymmetricLinearOperator:', p.solve(verbose=0), '(expected 1/6)')
except Exception as e:
    bad = True
    print('unused SymmetricLinearOperator: solve raised', repr(e))
sys.exit(1 if bad else 0)
