"""C17: in the stationary-list x all-samples tables (ConvexQGFunction 'qg_convexity', RsiEbFunction 'rsi'/'eb'),
unnamed samples are labelled by their position in EACH list separately. When the stationary point is not the first
recorded sample, the same label 'Point_0' denotes two different samples inside one function, the constraint between
(xs, x0) is called '...qg_convexity(Point_0, Point_0)' (a pair for which no constraint exists), and the dual table
row 'Point_0' is xs while its column 'Point_0' is x0 (xs being column 'Point_2')."""
import sys, warnings
warnings.filterwarnings('ignore')
sys.path.insert(0, sys.argv[1])
from PEPit import PEP
from PEPit.functions import ConvexQGFunction, RsiEbFunction

violation = False
for cls, kw, cond in [(ConvexQGFunction, dict(L=1.), 'qg_convexity'), (RsiEbFunction, dict(mu=.1, L=1.), 'rsi')]:
    p = PEP()
    f = p.declare_function(cls, **kw)
    x0 = p.set_initial_point()
    g0, f0 = f.oracle(x0)
    x1 = x0 - 0.5 * g0
    g1, f1 = f.oracle(x1)
    xs = f.stationary_point()          # declared AFTER the evaluations: sample index 2 of f
    p.set_initial_condition((x0 - xs) ** 2 <= 1)
    p.set_performance_metric((x1 - xs) ** 2 if cls is RsiEbFunction else f1 - f(xs))
    p.solve(verbose=0)

    samples = [t[0] for t in f.list_of_points]           # [x0, x1, xs]
    stationary = [t[0] for t in f.list_of_stationary_points]  # [xs]
    label_to_points = dict()
    for key, table in f.tables_of_constraints.items():
        rows = stationary if key != 'convexity' else samples
        for r in range(table.shape[0]):
            for c in range(table.shape[1]):
                cons = table.iloc[r, c]
                if isinstance(cons, int):
                    continue
                name = cons.get_name()
                inside = name[name.index('(') + 1:-1].split(', ')
                for label, pt in zip(inside, (rows[r], samples[c])):
                    label_to_points.setdefault(label, set()).add(id(pt))
                if rows[r] is xs and samples[c] is x0:
                    print(cls.__name__, ': constraint between (xs = sample #2, x0 = sample #0) is named', name)
    duals = f.get_class_constraints_duals()[cond]
    print(duals)
    print('   row label', list(duals.index), 'is xs; but xs is column', duals.columns[samples.index(xs)])
    ambiguous = {k: len(v) for k, v in label_to_points.items() if len(v) > 1}
    print('   labels denoting more than one sample of the same function:', ambiguous)
    if ambiguous or duals.index[0] != duals.columns[samples.index(xs)]:
        violation = True
sys.exit(1 if violation else 0)
