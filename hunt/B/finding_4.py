"""C07: a function is looked up by comparing the UNPRUNED decomposition of the queried point. A point obtained by a
scalar multiplication by zero (0*x0, (x0-x1)*0, x/inf, ...) keeps zero-weight keys until it is recorded, so the origin
reached through two routes is treated as two points: a differentiable function/operator returns two different
gradients and two different function values at the same point."""
import sys, warnings
warnings.filterwarnings('ignore')
sys.path.insert(0, sys.argv[1])
from PEPit import PEP
from PEPit.functions import SmoothFunction
from PEPit.operators import NegativelyComonotoneOperator
from PEPit.tools.dict_operations import prune_dict

p = PEP()
f = p.declare_function(SmoothFunction, L=1.)                      # differentiable: reuse_gradient=True
A = p.declare_function(NegativelyComonotoneOperator, rho=1.)      # reuse_gradient=True
x0 = p.set_initial_point()
x1 = p.set_initial_point()
z1 = 0 * x0
z2 = 0 * x1
ga, fa = f.oracle(z1)
gb, fb = f.oracle(z2)
print('same point? ', prune_dict(z1.decomposition_dict) == prune_dict(z2.decomposition_dict))
print('f: same gradient object:', ga is gb, '| same value object:', fa is fb,
      '| samples recorded at the origin:', len(f.list_of_points))
# fresh objects: z1 and z2 were pruned in place when f recorded them
a1 = A.gradient(0 * x0)
a2 = A.gradient((x0 - x1) * 0)
print('A: same gradient object:', a1 is a2, '| samples recorded at the origin:', len(A.list_of_points))
p.add_constraint(a1 ** 2 <= 1)
p.add_constraint(a2 ** 2 <= 1)
p.set_performance_metric((a1 - a2) ** 2)      # A(0) - A(0): must be 0 for a single-valued operator
val = p.solve(verbose=0)
print('worst case of ||A(0*x0) - A((x0-x1)*0)||^2 =', val, '(expected 0)')
bad = (ga is not gb) or (fa is not fb) or (a1 is not a2) or val > 1e-3
sys.exit(1 if bad else 0)
