"""C17: tables_of_constraints is never cleared. If a condition stops being generated between two solves
(ConvexIndicatorFunction.D set to inf; same for ConvexSupportFunction.M, NonexpansiveOperator.v), the dual table of
that condition survives and reports non-zero multipliers for constraints that do not exist in the solved problem."""
import sys, warnings
warnings.filterwarnings('ignore')
sys.path.insert(0, sys.argv[1])
import numpy as np
from PEPit import PEP
from PEPit.functions import ConvexIndicatorFunction

p = PEP()
h = p.declare_function(ConvexIndicatorFunction, D=1.)
x0 = p.set_initial_point(name='x0')
x1 = p.set_initial_point(name='x1')
g0 = h.gradient(x0)
g1 = h.gradient(x1)
p.add_constraint(g0 ** 2 <= 1)
p.set_performance_metric((x0 - x1) * g0)
print('solve 1 (D=1):', p.solve(verbose=0))
h.D = np.inf                                  # edit between solves: no diameter condition any more
p.add_constraint((x0 - x1) ** 2 <= 4)
print('solve 2 (D=inf):', p.solve(verbose=0))
generated = [c.get_name() for c in h.list_of_class_constraints]
print('class constraints of solve 2:', generated)
tables = h.get_class_constraints_duals()
stale = 'diameter' in tables and not any('diameter' in n for n in generated) \
        and float(np.abs(tables['diameter'].values).max()) > 1e-6
if 'diameter' in tables:
    print("table 'diameter' reported after solve 2:"); print(tables['diameter'])
sys.exit(1 if stale else 0)
