"""C17: a NAMED point at which a non-differentiable function is sampled more than once gives several samples with
the same label; different class constraints (different ordered pairs, different multipliers) get the identical name,
and the dual table has duplicated row/column labels, so neither the name nor (row, column) identifies the pair."""
import sys, warnings, collections
warnings.filterwarnings('ignore')
sys.path.insert(0, sys.argv[1])
from PEPit import PEP
from PEPit.functions import ConvexLipschitzFunction

p = PEP()
h = p.declare_function(ConvexLipschitzFunction, M=1.)
x0 = p.set_initial_point(name='x0')
x1 = p.set_initial_point(name='x1')
ga, fa = h.oracle(x0)
gb, fb = h.oracle(x0)      # second subgradient at the same named point: a distinct sample
g1, f1 = h.oracle(x1)
p.add_constraint((x0 - x1) ** 2 <= 1)
p.set_performance_metric((ga - gb) * (x1 - x0) + f1 - fa)
p.solve(verbose=0)
names = [c.get_name() for c in h.list_of_class_constraints]
for c in h.list_of_class_constraints:
    print(c.get_name(), round(c.eval_dual(), 4))
dup = {n: k for n, k in collections.Counter(names).items() if k > 1}
print('names carried by more than one distinct class constraint:', dup)
t = h.get_class_constraints_duals()['convexity']
print(t)
print('duplicated table labels:', list(t.index))
sys.exit(1 if dup else 0)
