"""C02: values of derived (non-leaf) points become unobtainable / wrong as soon as one new leaf Point exists after the
solve.  Point.eval() of a linear combination starts from np.zeros(Point.counter) -- the CURRENT number of leaf points --
instead of the dimension of the solved instance.
 (a) generic model: every non-leaf point (even one whose value was readable a line earlier) raises a numpy broadcast
     ValueError once e.g. f.gradient(x1) has been called after the solve (a natural thing to do to prepare the next
     iterate), although expressions over the same points still evaluate;
 (b) model with a single leaf point: no error, the value is silently broadcast to a longer vector, so that
     <y.eval(), y.eval()> != (y**2).eval()."""
import sys, warnings
warnings.filterwarnings('ignore')
sys.path.insert(0, sys.argv[1])
import io, contextlib
import numpy as np
from PEPit import PEP, Point
from PEPit.functions import SmoothStronglyConvexFunction

bad = False

# (a)
pep = PEP()
f = pep.declare_function(SmoothStronglyConvexFunction, L=1., mu=.1)
xs = f.stationary_point()
x0 = pep.set_initial_point()
pep.set_initial_condition((x0 - xs) ** 2 <= 1)
g0 = f.gradient(x0)
x1 = x0 - g0
pep.set_performance_metric((x1 - xs) ** 2)
with contextlib.redirect_stdout(io.StringIO()):
    tau = pep.solve(verbose=0)
before = x1.eval().copy()
print('(a) tau = %.6f ; x1.eval() right after the solve: %s' % (tau, before))
g1 = f.gradient(x1)          # built after the solve: creates one new leaf point
try:
    after = x1.eval()
    ok = after.shape == before.shape and np.allclose(after, x0.eval() - g0.eval())
    print('(a) x1.eval() after f.gradient(x1):', after, 'consistent' if ok else 'INCONSISTENT')
    bad |= not ok
except Exception as e:
    print('(a) x1.eval() after f.gradient(x1) raised %s: %s' % (type(e).__name__, e))
    print('    while ((x1-xs)**2).eval() still works:', ((x1 - xs) ** 2).eval(), 'and x0.eval() =', x0.eval())
    bad = True
try:
    print('(a) (x0 - xs).eval() [point built after the solve from solved leaves]:', (x0 - xs).eval())
except Exception as e:
    print('(a) (x0 - xs).eval() raised %s: %s' % (type(e).__name__, e))
    bad = True

# (b)
pep = PEP()
x0 = pep.set_initial_point()
pep.set_initial_condition(x0 ** 2 <= 1)
y = 2 * x0
pep.set_performance_metric(y ** 2)
with contextlib.redirect_stdout(io.StringIO()):
    tau = pep.solve(verbose=0)
print('(b) tau = %.6f ; y = 2*x0 ; y.eval() = %s ; (y**2).eval() = %.6f' % (tau, y.eval(), (y ** 2).eval()))
z = Point()                  # any new leaf point created after the solve
v = y.eval()
n2 = float(np.dot(v, v))
print('(b) after creating one new Point: y.eval() = %s ; <y,y> from values = %.6f ; (y**2).eval() = %.6f ; '
      '2*x0.eval() = %s' % (v, n2, (y ** 2).eval(), 2 * x0.eval()))
if v.shape != x0.eval().shape or abs(n2 - (y ** 2).eval()) > 1e-6:
    print('(b) INCONSISTENT: the value of y is not 2 * value of x0 and its squared norm does not match (y**2).eval()')
    bad = True
print('VIOLATED' if bad else 'not observed')
sys.exit(1 if bad else 0)
