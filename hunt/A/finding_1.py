"""C02: after a solve with a dimension-reduction heuristic, the objective value (pep.objective.eval(), which is also
the number returned by solve(return_primal_or_dual='primal')) is NOT the smallest performance metric of the returned
instance.  In the second-phase problem the variable tau is only constrained by
    wc - tol <= tau <= metric_k
and is no longer maximised, so the solver leaves it anywhere in that interval.  The gap is far above solver tolerance
(up to tol_dimension_reduction; ~1e-5..1e-4 with the defaults, 0.04..0.3 with tol 0.1 / 0.5)."""
import sys, warnings
warnings.filterwarnings('ignore')
sys.path.insert(0, sys.argv[1])
import io, contextlib
import numpy as np
from PEPit import PEP
from PEPit.functions import SmoothStronglyConvexFunction


def run(heuristic, tol, solver):
    pep = PEP()
    f = pep.declare_function(SmoothStronglyConvexFunction, L=1., mu=.1)
    xs = f.stationary_point()
    x0 = pep.set_initial_point()
    pep.set_initial_condition((x0 - xs) ** 2 <= 1)
    x1 = x0 - f.gradient(x0)
    m1 = 1 - (x1 - xs) ** 2      # a legal metric that is large when the iterates are small
    m2 = 2 - (x0 - xs) ** 2
    pep.set_performance_metric(m1)
    pep.set_performance_metric(m2)
    kw = dict(verbose=0, return_primal_or_dual='primal', solver=solver)
    if heuristic:
        kw.update(dimension_reduction_heuristic=heuristic)
        if tol is not None:
            kw.update(tol_dimension_reduction=tol)
    with contextlib.redirect_stdout(io.StringIO()):
        primal = pep.solve(**kw)
    obj = pep.objective.eval()
    min_metric = min(m1.eval(), m2.eval())
    # size of the solver error on this instance, for comparison
    viol = max([max(c.eval(), 0.) if c.equality_or_inequality == 'inequality' else abs(c.eval())
                for c in pep._list_of_constraints_sent_to_wrapper] + [1e-9])
    return primal, obj, min_metric, viol


bad = False
for heuristic, tol, solver in [(None, None, 'CLARABEL'), ('trace', None, 'CLARABEL'), ('logdet1', None, 'CLARABEL'),
                               ('trace', None, 'SCS'), ('trace', 0.1, 'CLARABEL'), ('logdet2', 0.5, 'CLARABEL')]:
    primal, obj, mm, viol = run(heuristic, tol, solver)
    gap = mm - obj
    flag = abs(gap) > max(1e-6, 100 * viol)
    bad |= flag
    print('heuristic=%-8s tol=%-5s solver=%-8s returned primal=%.8f objective.eval()=%.8f  min metric at returned '
          'instance=%.8f  gap=%.2e (max constraint error %.1e) %s'
          % (heuristic, tol, solver, primal, obj, mm, gap, viol, 'VIOLATION' if flag else 'ok'))
print('VIOLATED: objective value != smallest performance metric after dimension reduction' if bad else 'not observed')
sys.exit(1 if bad else 0)
