"""Model templates: each emits an operation list (the executor's vocabulary) for a bounded, feasible PEP.

Everything random comes from the `rng` passed in (a random.Random derived from the run seed).
"""


def r2(x):
    return float("%.3g" % x)


class Builder(object):
    def __init__(self, rng, prefix=""):
        self.rng = rng
        self.prefix = prefix
        self.ops = []
        self.n = 0
        self.P = None
        self.funcs = []      # handles of leaf functions
        self.points = []     # interesting point handles (iterates)
        self.exprs = []      # interesting expression handles
        self.conlist = []    # user constraints (handles)
        self.psds = []
        self.parts = []
        self.names = False
        self.info = {}

    def nm(self, base):
        self.n += 1
        return "%s%s%d" % (self.prefix, base, self.n)

    def emit(self, **op):
        self.ops.append(op)
        return op

    def pep(self):
        self.P = self.nm("P")
        self.emit(op="pep", out=self.P)
        return self.P

    def func(self, cls, name=None, reuse_gradient=None, transpose=False, **params):
        f = self.nm("f")
        op = dict(op="func", out=f, P=self.P, cls=cls, params=params)
        if self.names and name is None:
            name = "fn_" + f
        if name is not None:
            op["name"] = name
        if reuse_gradient is not None:
            op["reuse_gradient"] = reuse_gradient
        if transpose:
            op["transpose_out"] = f + "T"
        self.ops.append(op)
        self.funcs.append(f)
        return f

    def fexpr(self, expr):
        f = self.nm("F")
        self.emit(op="fexpr", out=f, expr=expr)
        return f

    def point(self, name=None):
        x = self.nm("x")
        op = dict(op="point", out=x, P=self.P)
        if self.names and name is None:
            name = "pt_" + x
        if name is not None:
            op["name"] = name
        self.ops.append(op)
        self.points.append(x)
        return x

    def newpoint(self):
        x = self.nm("q")
        self.emit(op="newpoint", out=x)
        return x

    def newexpr(self):
        e = self.nm("s")
        self.emit(op="newexpr", out=e)
        return e

    def stationary(self, f, name=None):
        outs = [self.nm("xs"), self.nm("gs"), self.nm("fs")]
        op = dict(op="stationary", out=outs, f=f)
        if self.names and name is None:
            name = "opt_" + outs[0]
        if name is not None:
            op["name"] = name
        self.ops.append(op)
        return outs

    def fixed(self, f):
        outs = [self.nm("xf"), self.nm("gf"), self.nm("ff")]
        self.emit(op="fixed", out=outs, f=f)
        return outs

    def oracle(self, f, x):
        outs = [self.nm("g"), self.nm("v")]
        self.emit(op="oracle", out=outs, f=f, x=x)
        return outs

    def gradient(self, f, x, sub=False):
        g = self.nm("g")
        op = dict(op="gradient", out=g, f=f, x=x)
        if sub:
            op["sub"] = True
        self.ops.append(op)
        return g

    def value(self, f, x, call=False):
        v = self.nm("v")
        op = dict(op="value", out=v, f=f, x=x)
        if call:
            op["call"] = True
        self.ops.append(op)
        return v

    def plin(self, terms):
        x = self.nm("x")
        op = self.emit(op="plin", out=x, terms=[[h, float(w)] for h, w in terms])
        if self.rng.random() < 0.12:
            op["acc"] = True      # written as `acc = null_point; acc += ...`
        elif len(op["terms"]) > 1 and op["terms"][0][1] == 1.0 and self.rng.random() < 0.15:
            op["acc_from_first"] = True      # written as `y = x; y += ...` (x stays in use under its own name)
        elif self.rng.random() < 0.2:
            op["style"] = self._styles(op["terms"])
        self.points.append(x)
        return x

    STYLES = ["lmul", "rmul", "div", "int", "np", "neg", "sub", "radd", "bool"]

    def _styles(self, terms):
        """Another spelling of the same combination: t * w, t / (1 / w), int / numpy weights, -t, acc - (-w) t, t + acc."""
        out = []
        for h, w in terms:
            ok = ["lmul", "rmul", "np", "sub", "radd", "neg"]
            if abs(w) in (0.25, 0.5, 1.0, 2.0, 4.0):
                ok.append("div")
            if float(w).is_integer():
                ok += ["int", "int"]
            if w == 1.0:
                ok.append("bool")
            out.append(self.rng.choice(ok))
        return out

    def inner(self, a, b):
        e = self.nm("e")
        self.emit(op="inner", out=e, a=a, b=b)
        return e

    def sq(self, a):
        e = self.nm("e")
        op = self.emit(op="sq", out=e, a=a)
        if self.rng.random() < 0.2:
            op["style"] = "mul"       # x * x instead of x ** 2
        return e

    def dist2(self, a, b):
        d = self.plin([(a, 1.0), (b, -1.0)])
        self.points.pop()
        return self.sq(d)

    def elin(self, terms, const=None):
        e = self.nm("e")
        op = dict(op="elin", out=e, terms=[[h, float(w)] for h, w in terms])
        if const is not None:
            op["const"] = float(const)
        if terms and self.rng.random() < 0.12:
            op["acc"] = True      # written as `acc = null_expression; acc += ...`
        elif len(terms) > 1 and float(terms[0][1]) == 1.0 and self.rng.random() < 0.15:
            op["acc_from_first"] = True      # written as `phi = d0; phi += ...`
        elif terms and self.rng.random() < 0.2:
            op["style"] = self._styles(op["terms"])
            if const is not None:
                op["const_style"] = self.rng.choice(["radd", "sub", "int"])
        self.ops.append(op)
        return e

    def cons(self, lhs, rel, rhs, target=None, how="constraint", name=None):
        c = self.nm("c")
        op = dict(op="cons", out=c, lhs=lhs, rel=rel, rhs=rhs)
        if target is not None:
            op["target"] = target
            op["how"] = how
            if self.names and name is None:
                name = "con_" + c
            if name is not None:
                op["name"] = name
        self.ops.append(op)
        self.conlist.append(c)
        return c

    def bound(self, e, ub, target=None, how="constraint"):
        """e <= ub written in a random orientation (all denote the same half-space)."""
        target = target or self.P
        if how == "initial":
            self.info.setdefault("init", []).append((e, float(ub)))
        o = self.rng.randrange(4)
        if o == 0:
            return self.cons(e, "<=", float(ub), target, how)
        if o == 1:
            return self.cons(float(ub), ">=", e, target, how)
        if o == 2:
            m = self.elin([(e, -1.0)])
            return self.cons(m, ">=", float(-ub), target, how)
        m = self.elin([(e, 1.0)], const=-ub)
        return self.cons(m, "<=", 0.0, target, how)

    def psd(self, entries, target=None, prebuilt=False):
        M = self.nm("M")
        op = dict(op="psd", out=M, entries=entries)
        if target is not None:
            op["target"] = target
        if prebuilt:
            op["prebuilt"] = True
        elif self.rng.random() < 0.25:
            op["form"] = self.rng.choice(["array", "tuple"])      # numpy array of Expressions / tuple of tuples
            if op["form"] == "array" and self.rng.random() < 0.5:
                op["reuse_buffer"] = True       # ... a work array the caller refills afterwards
        if self.names:
            op["name"] = "lmi_" + M
        self.ops.append(op)
        self.psds.append(M)
        return M

    def metric(self, e):
        op = self.emit(op="metric", P=self.P, e=e)
        if self.names:
            op["name"] = "met_" + e
        self.info.setdefault("metrics", []).append(e)

    def partition(self, d):
        Bp = self.nm("B")
        self.emit(op="partition", out=Bp, P=self.P, d=d)
        self.parts.append(Bp)
        return Bp

    def block(self, Bp, x, k):
        xb = self.nm("xb")
        self.emit(op="block", out=xb, B=Bp, x=x, k=k)
        return xb

    def step(self, kind, nouts, **args):
        bases = {"proximal_step": ["x", "g", "v"], "inexact_gradient_step": ["x", "d", "v"],
                 "exact_linesearch_step": ["x", "g", "v"], "linear_optimization_step": ["x", "g", "v"],
                 "bregman_gradient_step": ["x", "sx", "hx"], "bregman_proximal_step": ["x", "sx", "hx", "gx", "fx"],
                 "epsilon_subgradient_step": ["x", "g", "v", "eps"],
                 "inexact_proximal_step": ["x", "gx", "fx", "w", "vv", "fw", "eps"]}[kind]
        outs = [self.nm(b) for b in bases]
        self.emit(op="step", kind=kind, out=outs, args=args)
        self.points.append(outs[0])
        return outs


# --------------------------------------------------------------------------------------------------
# templates.  Each takes (b, n, rng) and returns nothing; it fills b.ops and b.info.
# --------------------------------------------------------------------------------------------------
def _mu_L(rng):
    L = r2(rng.choice([1.0, 2.0, 0.5 + 2.5 * rng.random()]))
    mu = r2(L * rng.choice([0.1, 0.2, 0.05 + 0.6 * rng.random()]))
    return mu, L


def t_gd(b, n, rng):
    """Gradient descent on a smooth class."""
    mu, L = _mu_L(rng)
    cls = rng.choice(["SmoothStronglyConvexFunction", "SmoothStronglyConvexFunction", "SmoothConvexFunction",
                      "SmoothFunction", "SmoothConvexLipschitzFunction", "SmoothStronglyConvexQuadraticFunction"])
    b.pep()
    if cls in ("SmoothStronglyConvexFunction", "SmoothStronglyConvexQuadraticFunction"):
        f = b.func(cls, mu=mu, L=L)
    elif cls == "SmoothConvexLipschitzFunction":
        f = b.func(cls, L=L, M=r2(1 + rng.random()))
    else:
        f = b.func(cls, L=L)
    gamma = r2(rng.choice([1.0, 0.5, 1.5 * rng.random() + 0.1]) / L)
    xs, gs, fs = b.stationary(f)
    x = b.point()
    x0 = x
    g0 = None
    grads = []
    for k in range(n):
        g, v = b.oracle(f, x)
        g0 = g0 or (g, v)
        grads.append(g)
        x = b.plin([(x, 1.0), (g, -gamma)])
    gn, vn = b.oracle(f, x)
    if cls == "SmoothFunction":
        # non-convex: f(x0) - f(x_n) <= 1, the metric is the smallest gradient norm (several metrics)
        if g0 is None:
            g0 = (gn, vn)
            x1 = b.plin([(x, 1.0), (gn, -gamma)])
            gn, vn = b.oracle(f, x1)
            grads.append(g0[0])
        d0 = b.elin([(g0[1], 1.0), (vn, -1.0)])
        b.bound(d0, 1.0, how="initial")
        for g in grads:
            b.metric(b.sq(g))
    else:
        b.bound(b.dist2(x0, xs), 1.0, how="initial")
        choice = rng.randrange(3)
        if choice == 0:
            b.metric(b.elin([(vn, 1.0), (fs, -1.0)]))
        elif choice == 1:
            b.metric(b.dist2(x, xs))
        else:
            b.metric(b.sq(gn))
    b.info.update(template="gd", cls=cls, f=f, xs=xs, fs=fs, x0=x0, xn=x, main_f=f)


def t_gd_qg(b, n, rng):
    """Gradient-type method on the classes that create their own stationary point (ConvexQG, RsiEb)."""
    L = r2(1 + rng.random())
    b.pep()
    cls = rng.choice(["ConvexQGFunction", "RsiEbFunction"])
    if cls == "ConvexQGFunction":
        f = b.func(cls, L=L)
    else:
        f = b.func(cls, mu=r2(0.2 * L), L=L)
    declare = rng.random() < 0.6
    x0 = b.point()
    x = x0
    if declare:
        xs, gs, fs = b.stationary(f)
    gamma = r2((0.5 + 0.5 * rng.random()) / L)
    if cls == "RsiEbFunction":
        gamma = r2(0.2 * L / (L ** 2))
    for k in range(n):
        g, v = b.oracle(f, x)
        x = b.plin([(x, 1.0), (g, -gamma)])
    gn, vn = b.oracle(f, x)
    if declare:
        b.bound(b.dist2(x0, xs), 1.0, how="initial")
        if cls == "ConvexQGFunction":
            b.metric(b.elin([(vn, 1.0), (fs, -1.0)]))
        else:
            b.metric(b.dist2(x, xs))
    else:
        # no stationary point declared by the user: the class adds one while generating its constraints
        b.bound(b.sq(x0), 1.0, how="initial")
        b.bound(b.sq(gn), 4.0)
        b.metric(b.elin([(b.sq(gn), -1.0)], const=1.0))
    b.info.update(template="gd_qg", cls=cls, f=f, x0=x0, xn=x, main_f=f)


def t_subgradient(b, n, rng):
    M = r2(1 + rng.random())
    b.pep()
    f = b.func("ConvexLipschitzFunction", M=M)
    xs, gs, fs = b.stationary(f)
    x0 = b.point()
    x = x0
    gamma = r2(1.0 / (M * (n + 1) ** 0.5))
    for k in range(n):
        g, v = b.oracle(f, x)
        x = b.plin([(x, 1.0), (g, -gamma)])
    vn = b.value(f, x)
    b.bound(b.dist2(x0, xs), 1.0, how="initial")
    b.metric(b.elin([(vn, 1.0), (fs, -1.0)]))
    b.info.update(template="subgradient", cls="ConvexLipschitzFunction", f=f, xs=xs, x0=x0, xn=x, main_f=f)


def t_ppa(b, n, rng):
    cls = rng.choice(["ConvexFunction", "StronglyConvexFunction", "ConvexIndicatorFunction",
                      "ConvexSupportFunction", "ConvexLipschitzFunction"])
    b.pep()
    if cls == "StronglyConvexFunction":
        f = b.func(cls, mu=r2(0.1 + rng.random()))
    elif cls == "ConvexIndicatorFunction":
        f = b.func(cls, D=r2(1 + rng.random()))
    elif cls in ("ConvexSupportFunction", "ConvexLipschitzFunction"):
        f = b.func(cls, M=r2(1 + rng.random()))
    else:
        f = b.func(cls)
    xs, gs, fs = b.stationary(f)
    x0 = b.point()
    x = x0
    gamma = r2(0.5 + 2 * rng.random())
    v = None
    for k in range(max(n, 1)):
        x, g, v = b.step("proximal_step", 3, x0="@" + x, f="@" + f, gamma=gamma)
    b.bound(b.dist2(x0, xs), 1.0, how="initial")
    if cls in ("ConvexIndicatorFunction", "ConvexSupportFunction"):
        b.metric(b.dist2(x, xs))
    else:
        b.metric(b.elin([(v, 1.0), (fs, -1.0)]))
    b.info.update(template="ppa", cls=cls, f=f, xs=xs, x0=x0, xn=x, main_f=f)


def t_pgd(b, n, rng):
    """Proximal gradient on F = f + h (composite function)."""
    mu, L = _mu_L(rng)
    b.pep()
    f = b.func("SmoothStronglyConvexFunction", mu=mu, L=L)
    h = b.func(rng.choice(["ConvexFunction", "ConvexIndicatorFunction", "ConvexLipschitzFunction"]),
               **({}))
    if b.ops[-1]["cls"] == "ConvexLipschitzFunction":
        b.ops[-1]["params"] = {"M": 1.0}
    F = b.fexpr(["add", f, h])
    xs, gs, fs = b.stationary(F)
    x0 = b.point()
    x = x0
    gamma = r2((0.5 + rng.random()) / L)
    for k in range(max(n, 1)):
        g = b.gradient(f, x)
        y = b.plin([(x, 1.0), (g, -gamma)])
        x, gh, vh = b.step("proximal_step", 3, x0="@" + y, f="@" + h, gamma=gamma)
    b.bound(b.dist2(x0, xs), 1.0, how="initial")
    b.metric(b.dist2(x, xs))
    b.info.update(template="pgd", cls="composite", f=f, h=h, F=F, xs=xs, x0=x0, xn=x, main_f=f)


def t_operator(b, n, rng):
    """Two trajectories of a fixed-point / resolvent iteration on an operator class."""
    cls = rng.choice(["MonotoneOperator", "StronglyMonotoneOperator", "CocoerciveOperator",
                      "LipschitzOperator", "LipschitzStronglyMonotoneOperator",
                      "CocoerciveStronglyMonotoneOperator", "NonexpansiveOperator", "NegativelyComonotoneOperator"])
    b.pep()
    fwd = False
    if cls == "MonotoneOperator":
        A = b.func(cls)
    elif cls == "StronglyMonotoneOperator":
        A = b.func(cls, mu=r2(0.1 + rng.random()))
    elif cls == "CocoerciveOperator":
        beta = r2(0.5 + rng.random())
        A = b.func(cls, beta=beta)
        fwd = rng.random() < 0.7
    elif cls == "LipschitzOperator":
        A = b.func(cls, L=r2(0.5 + rng.random()))
        fwd = True
    elif cls == "LipschitzStronglyMonotoneOperator":
        A = b.func(cls, mu=0.2, L=r2(1 + rng.random()))
        fwd = rng.random() < 0.7
    elif cls == "CocoerciveStronglyMonotoneOperator":
        A = b.func(cls, mu=0.2, beta=r2(0.5 + rng.random()))
        fwd = rng.random() < 0.7
    elif cls == "NonexpansiveOperator":
        A = b.func(cls)
        fwd = True
    else:
        A = b.func(cls, rho=0.1)
    gamma = r2(0.3 + 0.5 * rng.random()) if fwd else r2(1 + rng.random())
    x0, y0 = b.point(), b.point()
    x, y = x0, y0
    for k in range(max(n, 1)):
        if fwd:
            gx = b.gradient(A, x)
            gy = b.gradient(A, y)
            if cls == "NonexpansiveOperator":
                x = b.plin([(x, 1 - gamma), (gx, gamma)])
                y = b.plin([(y, 1 - gamma), (gy, gamma)])
            else:
                x = b.plin([(x, 1.0), (gx, -gamma)])
                y = b.plin([(y, 1.0), (gy, -gamma)])
        else:
            x = b.step("proximal_step", 3, x0="@" + x, f="@" + A, gamma=gamma)[0]
            y = b.step("proximal_step", 3, x0="@" + y, f="@" + A, gamma=gamma)[0]
    b.bound(b.dist2(x0, y0), 1.0, how="initial")
    b.metric(b.dist2(x, y))
    b.info.update(template="operator", cls=cls, f=A, x0=x0, xn=x, main_f=A)


def t_user_class(b, n, rng):
    """Resolvent iteration on an operator class written by the user with the documented table builders."""
    mu = r2(0.1 + 0.5 * rng.random())
    b.pep()
    A = b.func("UserQuasiStronglyMonotoneOperator", mu=mu)
    xs, gs, fs = b.stationary(A)
    if rng.random() < 0.3:
        b.stationary(A)          # a second zero of the operator (it then coincides with the first)
    x0 = b.point()
    x = x0
    gamma = r2(0.5 + rng.random())
    for k in range(max(n, 1)):
        x = b.step("proximal_step", 3, x0="@" + x, f="@" + A, gamma=gamma)[0]
    b.bound(b.dist2(x0, xs), 1.0, how="initial")
    b.metric(b.dist2(x, xs))
    b.info.update(template="user_class", cls="UserQuasiStronglyMonotoneOperator", f=A, x0=x0, xn=x, main_f=A, xs=xs)


def t_halpern(b, n, rng):
    b.pep()
    T = b.func("NonexpansiveOperator")
    xs, _, _ = b.fixed(T)
    x0 = b.point()
    x = x0
    for k in range(max(n, 1)):
        lam = 1.0 / (k + 2)
        Tx = b.gradient(T, x)
        x = b.plin([(x0, lam), (Tx, 1 - lam)])
    Tx = b.gradient(T, x)
    b.bound(b.dist2(x0, xs), 1.0, how="initial")
    b.metric(b.dist2(x, Tx))
    b.info.update(template="halpern", cls="NonexpansiveOperator", f=T, xs=xs, x0=x0, xn=x, main_f=T)


def t_fw(b, n, rng):
    L = r2(0.5 + rng.random())
    D = r2(0.5 + rng.random())
    b.pep()
    f1 = b.func("SmoothConvexFunction", L=L)
    f2 = b.func("ConvexIndicatorFunction", D=D)
    F = b.fexpr(["add", f1, f2])
    xs, gs, fs = b.stationary(F)
    x0 = b.point()
    _ = b.value(f2, x0)
    x = x0
    for k in range(max(n, 1)):
        g = b.gradient(f1, x)
        y = b.step("linear_optimization_step", 3, dir="@" + g, ind="@" + f2)[0]
        lam = 2.0 / (k + 2)
        x = b.plin([(x, 1 - lam), (y, lam)])
    vn = b.value(F, x)
    b.metric(b.elin([(vn, 1.0), (fs, -1.0)]))
    b.info.update(template="fw", cls="composite", f=f1, h=f2, F=F, xs=xs, x0=x0, xn=x, main_f=f1)


def t_linesearch(b, n, rng):
    mu, L = _mu_L(rng)
    b.pep()
    f = b.func("SmoothStronglyConvexFunction", mu=mu, L=L)
    xs, gs, fs = b.stationary(f)
    x0 = b.point()
    g0, v0 = b.oracle(f, x0)
    x, g, v = x0, g0, v0
    for k in range(max(n, 1)):
        x, g, v = b.step("exact_linesearch_step", 3, x0="@" + x, f="@" + f, directions=["@" + g])
    b.bound(b.elin([(v0, 1.0), (fs, -1.0)]), 1.0, how="initial")
    b.metric(b.elin([(v, 1.0), (fs, -1.0)]))
    b.info.update(template="linesearch", cls="SmoothStronglyConvexFunction", f=f, xs=xs, x0=x0, xn=x, main_f=f)


def t_inexact_gd(b, n, rng):
    mu, L = _mu_L(rng)
    b.pep()
    f = b.func("SmoothStronglyConvexFunction", mu=mu, L=L)
    xs, gs, fs = b.stationary(f)
    x0 = b.point()
    x = x0
    eps = r2(0.1 + 0.3 * rng.random())
    notion = rng.choice(["relative", "relative", "absolute"])
    gamma = r2(1.0 / L)
    v0 = None
    for k in range(max(n, 1)):
        x, d, v = b.step("inexact_gradient_step", 3, x0="@" + x, f="@" + f, gamma=gamma, epsilon=eps, notion=notion)
        v0 = v0 or v
    vn = b.value(f, x)
    b.bound(b.elin([(v0, 1.0), (fs, -1.0)]), 1.0, how="initial")
    b.metric(b.elin([(vn, 1.0), (fs, -1.0)]))
    b.info.update(template="inexact_gd", cls="SmoothStronglyConvexFunction", f=f, xs=xs, x0=x0, xn=x, main_f=f)


def t_inexact_prox(b, n, rng):
    b.pep()
    f = b.func("ConvexFunction")
    xs, gs, fs = b.stationary(f)
    x0 = b.point()
    x = x0
    gamma = r2(0.5 + rng.random())
    opt = rng.choice(["PD_gapI", "PD_gapII", "PD_gapIII"])
    fx = None
    for k in range(max(n, 1)):
        outs = b.step("inexact_proximal_step", 7, x0="@" + x, f="@" + f, gamma=gamma, opt=opt)
        xn, gx, fx, w, vv, fw, epsv = outs
        # accuracy requirement: eps_var <= sigma^2/2 * ||x - x0||^2  (as in the shipped examples)
        d = b.dist2(xn, x)
        b.cons(epsv, "<=", b.elin([(d, 0.1)]), target=f)
        x = xn
    b.bound(b.dist2(x0, xs), 1.0, how="initial")
    b.metric(b.elin([(fx, 1.0), (fs, -1.0)]))
    b.info.update(template="inexact_prox", cls="ConvexFunction", f=f, xs=xs, x0=x0, xn=x, main_f=f)


def t_eps_subgradient(b, n, rng):
    M = r2(1 + rng.random())
    b.pep()
    f = b.func("ConvexLipschitzFunction", M=M)
    xs, gs, fs = b.stationary(f)
    x0 = b.point()
    x = x0
    gamma = r2(0.5 / M)
    for k in range(max(n, 1)):
        xn, g, v, epsv = b.step("epsilon_subgradient_step", 4, x0="@" + x, f="@" + f, gamma=gamma)
        b.cons(epsv, "<=", 0.1, target=b.P)
        x = xn
    vn = b.value(f, x)
    b.bound(b.dist2(x0, xs), 1.0, how="initial")
    b.metric(b.elin([(vn, 1.0), (fs, -1.0)]))
    b.info.update(template="eps_subgradient", cls="ConvexLipschitzFunction", f=f, xs=xs, x0=x0, xn=x, main_f=f)


def t_bregman(b, n, rng):
    """NoLips (Bregman gradient) in function values, after the shipped example."""
    L = r2(1 + rng.random())
    gamma = r2(1.0 / L / (1 + rng.random()))
    b.pep()
    d = b.func("ConvexFunction", reuse_gradient=True)
    f1 = b.func("ConvexFunction", reuse_gradient=True)
    h = b.fexpr(["div", ["add", d, f1], L])
    f2 = b.func("ConvexIndicatorFunction", D=None)
    b.ops[-1]["params"] = {}
    F = b.fexpr(["add", f1, f2])
    xs, gs, fs = b.stationary(F)
    ghs, hs = b.oracle(h, xs)
    x0 = b.point()
    gh0, h0 = b.oracle(h, x0)
    gf0, f0 = b.oracle(F, x0)
    _ = b.value(f2, x0)
    b.bound(b.elin([(hs, 1.0), (h0, -1.0), (b.inner(gh0, b.plin([(xs, 1.0), (x0, -1.0)])), -1.0)]), 1.0,
            how="initial")
    b.points.pop()
    gfx, ghx, x = gf0, gh0, x0
    hx = None
    for k in range(max(n, 1)):
        gfx1 = b.gradient(f1, x)
        x, sx, hx = b.step("bregman_gradient_step", 3, gx0="@" + gfx1, sx0="@" + ghx, mirror_map="@" + h, gamma=gamma)
        ghx = sx
    vn = b.value(F, x)
    b.metric(b.elin([(vn, 1.0), (fs, -1.0)]))
    b.info.update(template="bregman", cls="composite", f=f1, h=d, F=F, xs=xs, x0=x0, xn=x, main_f=f1)


def t_bregman_prox(b, n, rng):
    """Bregman proximal point, after the shipped example."""
    gamma = r2(0.5 + rng.random())
    b.pep()
    h = b.func("ConvexFunction", reuse_gradient=True)
    f = b.func("ConvexFunction")
    xs, gs, fs = b.stationary(f)
    ghs, hs = b.oracle(h, xs)
    x0 = b.point()
    gh0, h0 = b.oracle(h, x0)
    dxs = b.plin([(xs, 1.0), (x0, -1.0)])
    b.points.pop()
    b.bound(b.elin([(hs, 1.0), (h0, -1.0), (b.inner(gh0, dxs), -1.0)]), 1.0, how="initial")
    gh, x = gh0, x0
    fx = None
    for k in range(max(n, 1)):
        x, sx, hx, gx, fx = b.step("bregman_proximal_step", 5, sx0="@" + gh, mirror_map="@" + h,
                                   min_function="@" + f, gamma=gamma)
        gh = sx
    b.metric(b.elin([(fx, 1.0), (fs, -1.0)]))
    b.info.update(template="bregman_prox", cls="ConvexFunction", f=f, h=h, xs=xs, x0=x0, xn=x, main_f=f)


def t_bcd(b, n, rng):
    """Cyclic block coordinate descent on a block-smooth function."""
    d = rng.choice([2, 2, 3])
    Ls = [r2(0.5 + rng.random()) for _ in range(d)]
    b.pep()
    Bp = b.partition(d)
    f = b.func("BlockSmoothConvexFunction", partition="@" + Bp, L=Ls)
    xs, gs, fs = b.stationary(f)
    x0 = b.point()
    x = x0
    for k in range(max(n, 1)):
        i = k % d
        g = b.gradient(f, x)
        gi = b.block(Bp, g, i)
        x = b.plin([(x, 1.0), (gi, -1.0 / Ls[i])])
    vn = b.value(f, x)
    b.bound(b.dist2(x0, xs), 1.0, how="initial")
    b.metric(b.elin([(vn, 1.0), (fs, -1.0)]))
    b.info.update(template="bcd", cls="BlockSmoothConvexFunction", f=f, xs=xs, x0=x0, xn=x, part=Bp, main_f=f)


def t_linear(b, n, rng):
    """Bounded models on the linear-operator classes (class LMIs)."""
    cls = rng.choice(["SymmetricLinearOperator", "SkewSymmetricLinearOperator", "LinearOperator", "LinearOperator"])
    L = r2(0.5 + 1.5 * rng.random())
    b.pep()
    x0 = b.point()
    if cls == "SymmetricLinearOperator":
        A = b.func(cls, mu=r2(0.1 * L), L=L)
    elif cls == "SkewSymmetricLinearOperator":
        A = b.func(cls, L=L)
    else:
        A = b.func(cls, L=L, transpose=True)
    x = x0
    ys = []
    if cls == "LinearOperator" and rng.random() < 0.3:
        # the operator is only ever applied through its adjoint (directly or through a multiple of it):
        # every condition of the class then comes from the samples of A.T
        AT = A + "T"
        if rng.random() < 0.5:
            AT = b.fexpr(["div", AT, 2.0]) if rng.random() < 0.5 else b.fexpr(["mul", 0.5, AT])
        v = b.gradient(AT, x0)
        if n >= 2:
            u1 = b.point()
            b.gradient(AT, u1)
            b.bound(b.sq(u1), 1.0)
        b.bound(b.sq(x0), 1.0, how="initial")
        b.metric(b.sq(v))
        b.info.update(template="linear", cls=cls, f=A, x0=x0, xn=x, main_f=A, adjoint_only=True)
        return
    for k in range(max(n, 1)):
        y = b.gradient(A, x)
        ys.append(y)
        x = b.plin([(x, 1.0), (y, -r2(0.5 / L))])
    if cls == "LinearOperator" and rng.random() < 0.6:
        u = b.point()
        _ = b.gradient(A + "T", u)
        b.bound(b.sq(u), 1.0)
    # (otherwise the operator is only applied forward: its adjoint has no sample)
    b.bound(b.sq(x0), 1.0, how="initial")
    if cls == "LinearOperator" and rng.random() < 0.35:
        # things declared on the adjoint itself (it is a function of its own): a constraint, an LMI, a step
        AT = A + "T"
        what = rng.choice(["cons", "lmi", "step"])
        if what == "cons":
            b.bound(b.sq(x0), 2.2e3, target=AT)
        elif what == "lmi":
            s_ = b.newexpr()
            b.psd([[b.sq(x0), s_], [s_, 1.0]], target=AT)
        else:
            u2 = b.point()
            b.bound(b.sq(u2), 1.0)
            b.step("inexact_gradient_step", 3, x0="@" + u2, f="@" + AT, gamma=0.1, epsilon=0.1, notion="absolute")
    if cls == "SkewSymmetricLinearOperator" and rng.random() < 0.5:
        b.metric(b.inner(x0, ys[0]))     # <x, Ax>: zero for every skew-symmetric operator
    elif cls == "LinearOperator" and len(ys) >= 2 and rng.random() < 0.5:
        # <x0, A x1> - <x1, A x0>: zero for every symmetric operator, not for a general one
        x1 = b.plin([(x0, 1.0), (ys[0], -r2(0.5 / L))])
        b.points.pop()
        b.metric(b.elin([(b.inner(x0, ys[1]), 1.0), (b.inner(x1, ys[0]), -1.0)]))
    else:
        b.metric(b.sq(ys[-1]))
    b.info.update(template="linear", cls=cls, f=A, x0=x0, xn=x, main_f=A)


def t_agm(b, n, rng):
    """Accelerated gradient method (momentum) on a smooth (strongly) convex function."""
    mu, L = _mu_L(rng)
    b.pep()
    if rng.random() < 0.5:
        f = b.func("SmoothConvexFunction", L=L)
        cls = "SmoothConvexFunction"
    else:
        f = b.func("SmoothStronglyConvexFunction", mu=mu, L=L)
        cls = "SmoothStronglyConvexFunction"
    xs, gs, fs = b.stationary(f)
    x0 = b.point()
    x, y = x0, x0
    for k in range(max(n, 1)):
        g = b.gradient(f, y)
        xn = b.plin([(y, 1.0), (g, -r2(1.0 / L))])
        beta = r2(k / (k + 3.0))
        y = b.plin([(xn, 1.0 + beta), (x, -beta)]) if beta else xn
        x = xn
    vn = b.value(f, x)
    b.bound(b.dist2(x0, xs), 1.0, how="initial")
    b.metric(b.elin([(vn, 1.0), (fs, -1.0)]))
    b.info.update(template="agm", cls=cls, f=f, xs=xs, x0=x0, xn=x, main_f=f)


def t_drs(b, n, rng):
    """Douglas-Rachford splitting on two functions, two trajectories (contraction of the governing sequence)."""
    mu, L = _mu_L(rng)
    b.pep()
    f1 = b.func("SmoothStronglyConvexFunction", mu=mu, L=L)
    f2 = b.func(rng.choice(["ConvexFunction", "ConvexIndicatorFunction"]))
    alpha = r2(0.5 + rng.random())
    theta = r2(0.5 + rng.random())
    w0, v0 = b.point(), b.point()
    w, v = w0, v0
    for k in range(max(n, 1)):
        for which in (0, 1):
            z = w if which == 0 else v
            x = b.step("proximal_step", 3, x0="@" + z, f="@" + f2, gamma=alpha)[0]
            r = b.plin([(x, 2.0), (z, -1.0)])
            y = b.step("proximal_step", 3, x0="@" + r, f="@" + f1, gamma=alpha)[0]
            znew = b.plin([(z, 1.0), (y, theta), (x, -theta)])
            if which == 0:
                w = znew
            else:
                v = znew
    b.bound(b.dist2(w0, v0), 1.0, how="initial")
    b.metric(b.dist2(w, v))
    b.info.update(template="drs", cls="two-functions", f=f1, h=f2, x0=w0, xn=w, main_f=f1)


def t_tos(b, n, rng):
    """Three-operator splitting on operators (cocoercive + two monotone), two trajectories."""
    beta = r2(0.5 + rng.random())
    b.pep()
    A = b.func("MonotoneOperator")
    Bo = b.func("CocoerciveOperator", beta=beta)
    C = b.func(rng.choice(["MonotoneOperator", "StronglyMonotoneOperator"]))
    if b.ops[-1]["cls"] == "StronglyMonotoneOperator":
        b.ops[-1]["params"] = {"mu": 0.2}
    alpha = r2(beta * (0.5 + rng.random()))
    theta = 1.0
    w0, v0 = b.point(), b.point()
    w, v = w0, v0
    for k in range(max(n, 1)):
        for which in (0, 1):
            z = w if which == 0 else v
            x = b.step("proximal_step", 3, x0="@" + z, f="@" + C, gamma=alpha)[0]
            gx = b.gradient(Bo, x)
            r = b.plin([(x, 2.0), (z, -1.0), (gx, -alpha)])
            y = b.step("proximal_step", 3, x0="@" + r, f="@" + A, gamma=alpha)[0]
            znew = b.plin([(z, 1.0), (y, theta), (x, -theta)])
            if which == 0:
                w = znew
            else:
                v = znew
    b.bound(b.dist2(w0, v0), 1.0, how="initial")
    b.metric(b.dist2(w, v))
    b.info.update(template="tos", cls="three-operators", f=Bo, x0=w0, xn=w, main_f=Bo)


TEMPLATES = {
    "gd": t_gd, "gd_qg": t_gd_qg, "subgradient": t_subgradient, "ppa": t_ppa, "pgd": t_pgd,
    "operator": t_operator, "halpern": t_halpern, "fw": t_fw, "linesearch": t_linesearch,
    "inexact_gd": t_inexact_gd, "inexact_prox": t_inexact_prox, "eps_subgradient": t_eps_subgradient,
    "bregman": t_bregman, "bregman_prox": t_bregman_prox, "bcd": t_bcd, "linear": t_linear,
    "agm": t_agm, "drs": t_drs, "tos": t_tos, "user_class": t_user_class,
}

DEFAULT_WEIGHTS = {"gd": 4, "gd_qg": 2, "subgradient": 1, "ppa": 2, "pgd": 3, "operator": 3, "halpern": 1, "fw": 1,
                   "linesearch": 1, "inexact_gd": 1, "inexact_prox": 1, "eps_subgradient": 1, "bregman": 1,
                   "bregman_prox": 1, "bcd": 2, "linear": 2, "agm": 1, "drs": 1, "tos": 1, "user_class": 1}


# --------------------------------------------------------------------------------------------------
# decorations: additions that keep the model bounded and feasible
# --------------------------------------------------------------------------------------------------
def decorate(b, rng, kinds):
    info = b.info
    P = b.P
    pts = [p for p in b.points if p] or []
    for kind in kinds:
        if kind == "extra_metric":
            m = info["metrics"][0]
            e = b.elin([(m, r2(1 + rng.random()))], const=r2(0.1 * rng.random()))
            b.metric(e)
        elif kind == "redundant_cons" and pts:
            p = rng.choice(pts)
            b.bound(b.sq(p), 1e3)
        elif kind == "eq_cons" and len(pts) >= 1:
            # a new free point tied to an existing one by an equality: ||q - p||^2 == 0 is avoided
            # (degenerate); tie a fresh expression instead:  s == <p, p>
            p = rng.choice(pts)
            s = b.newexpr()
            o = rng.randrange(3)
            e = b.sq(p)
            if o == 0:
                b.cons(s, "==", e, target=P)
            elif o == 1:
                b.cons(e, "==", s, target=P)
            else:
                b.cons(b.elin([(s, 1.0), (e, -1.0)]), "==", 0.0, target=P)
        elif kind == "func_cons" and pts and info.get("main_f"):
            p = rng.choice(pts)
            b.bound(b.sq(p), 2e3, target=info["main_f"])
        elif kind in ("lmi_sym", "lmi_asym", "lmi_func") and info.get("metrics"):
            # s^2 <= m  encoded as [[m, s], [s, 1]] >> 0 ; then bound s (redundantly) so nothing changes
            m = info["metrics"][0]
            s = b.newexpr()
            if kind == "lmi_asym":
                s2 = b.newexpr()
                entries = [[m, s], [s2, 1.0]]
            else:
                entries = [[m, s], [s, 1.0]]
            target = P
            if kind == "lmi_func" and info.get("main_f"):
                target = info["main_f"]
            b.psd(entries, target=target, prebuilt=(rng.random() < 0.3 and target == P))
            b.info.setdefault("lmi_leaves", []).append(s)
        elif kind == "lmi_sqrt_metric" and info.get("metrics"):
            m = info["metrics"][0]
            s = b.newexpr()
            b.psd([[m, s], [s, 1.0]], target=P)
            # replace nothing: add sqrt as an additional metric only if it cannot lower the value below... keep simple
            b.info.setdefault("lmi_leaves", []).append(s)
        elif kind == "lmi3" and len(pts) >= 2:
            # Gram-type 3x3 LMI on existing quantities: [[<p,p>, <p,q>, 0],[<p,q>, <q,q>, 0],[0, 0, 1]] >> 0 (always true)
            p, q = rng.sample(pts, 2)
            pq = b.inner(p, q)
            qp = b.inner(q, p)
            b.psd([[b.sq(p), pq, 0.0], [qp, b.sq(q), 0.0], [0.0, 0.0, 1.0]], target=P)
        elif kind == "unused_query" and info.get("main_f"):
            q = b.newpoint()
            b.oracle(info["main_f"], q)
        elif kind == "useless_partition":
            Bp = b.partition(rng.choice([1, 2, 3]))
            if pts and rng.random() < 0.7:
                p = rng.choice(pts)
                b.block(Bp, p, 0)
            if pts and rng.random() < 0.5:
                # a user constraint attached to the partition itself (public BlockPartition.add_constraint)
                b.bound(b.sq(rng.choice(pts)), 3e3, target=Bp)
        elif kind == "idle_operator":
            # an operator / function that is declared and never evaluated
            c = rng.choice(["SymmetricLinearOperator", "SkewSymmetricLinearOperator", "LinearOperator",
                            "SmoothConvexFunction", "ConvexFunction"])
            if c == "SymmetricLinearOperator":
                b.func(c, mu=0.1, L=1.0)
            elif c == "ConvexFunction":
                b.func(c)
            else:
                b.func(c, L=1.0)
            b.funcs.pop()
        elif kind == "double_reg":
            # the same Constraint object registered with a second owner (it then reaches the solver twice)
            cands = [o for o in b.ops if o["op"] == "cons" and o.get("target") == P]
            if cands and info.get("main_f"):
                c = rng.choice(cands)["out"]
                b.emit(op="attach", c=c, target=rng.choice([info["main_f"], P]))
        elif kind == "composite_items" and pts and info.get("F"):
            # a constraint and an LMI attached to a *composite* function
            mode = rng.choice(["cons", "lmi", "both", "both"]) if info.get("metrics") else "cons"
            if mode in ("cons", "both"):
                b.bound(b.sq(rng.choice(pts)), 2.5e3, target=info["F"])
            if mode in ("lmi", "both"):
                # (alone, the LMI is the only thing the composite function carries)
                s_ = b.newexpr()
                b.psd([[info["metrics"][0], s_], [s_, 1.0]], target=info["F"])
        elif kind == "zero_coef" and pts and info.get("metrics"):
            # coefficients that are exactly zero after construction (0 * e keeps its keys)
            p = rng.choice(pts)
            z = b.elin([(b.sq(p), 0.0), (info["metrics"][0], 0.0)])
            e = b.elin([(z, 1.0), (b.sq(p), 1.0)])
            b.bound(e, 5e3)
            if rng.random() < 0.5:
                b.metric(b.elin([(info["metrics"][0], 1.0), (z, 1.0)]))
        elif kind == "mirror" and len(pts) >= 2:
            # both orientations of an inner product with different weights, plus a diagonal term and a constant
            p, q = rng.sample(pts, 2)
            e = b.elin([(b.inner(p, q), r2(rng.uniform(0.1, 1))), (b.inner(q, p), r2(rng.uniform(-1, -0.1))),
                        (b.sq(p), 1.0), (b.sq(q), 1.0)], const=r2(rng.uniform(-1, 1)))
            b.bound(e, 6e3)
        elif kind == "leaf_metric" and info.get("metrics"):
            # a bare leaf expression as performance metric (tied from above to the main metric)
            s_ = b.newexpr()
            b.cons(s_, "<=", info["metrics"][0], target=P)
            b.metric(s_)
        elif kind == "leaf_sides" and info.get("metrics"):
            # leaf expressions and constants on either side of a comparison
            s_ = b.newexpr()
            o = rng.randrange(4)
            if o == 0:
                b.cons(s_, "<=", 7e3, target=P)
            elif o == 1:
                b.cons(-7e3, "<=", s_, target=P)
            elif o == 2:
                b.cons(s_, ">=", -7e3, target=P)
            else:
                b.cons(7e3, ">=", s_, target=P)
            b.cons(s_, "==", info["metrics"][0], target=P)
        elif kind == "part_cons" and pts:
            Bp = b.parts[0] if b.parts else b.partition(rng.choice([2, 3]))
            b.bound(b.sq(rng.choice(pts)), 4e3, target=Bp)
        elif kind == "lmi_affine" and info.get("init"):
            # the initial condition e <= ub tightened through an LMI whose entry mixes a constant with variables:
            # [[c*ub - e]] >> 0 (or a Schur-complement form of it); it is binding, unlike the other LMI decorations
            e, ub = rng.choice(info["init"])
            c = rng.choice([0.5, 0.25, 0.75])
            a = b.elin([(e, -1.0)], const=c * ub)
            form = rng.randrange(4)
            targets = [P] + ([info["main_f"]] if info.get("main_f") else []) + ([info["F"]] if info.get("F") else [])
            target = rng.choice(targets)
            if form == 0:
                b.psd([[a]], target=target)
            elif form == 1:
                b.psd([[a, 0.0], [0.0, 1.0]], target=target)
            elif form == 2:
                s_ = b.newexpr()
                b.psd([[a, s_], [s_, 1.0]], target=target)
            else:
                # constant on the off-diagonal entries as well: [[2c*ub - e, sqrt(c*ub)], [sqrt(c*ub), 1]]
                r = r2((c * ub) ** 0.5)
                a2 = b.elin([(e, -1.0)], const=c * ub + r * r)
                b.psd([[a2, r], [r, 1.0]], target=target)
        elif kind == "tiny_scale" and pts:
            # a redundant bound written in a tiny unit: eps * ||p||^2 <= eps * 1e3  (a *huge* unit, 1e9, was tried
            # and withdrawn: a REAL solver answers such a badly scaled SDP with a residual that is not PSD to 2e-2,
            # which says nothing about PEPit)
            eps = rng.choice([1e-9, 1e-10, 1e-12, 1e-9, 1e-11])
            p = rng.choice(pts)
            e = b.elin([(b.sq(p), eps)])
            b.cons(e, "<=", eps * 1e3, target=rng.choice([P] + ([info["main_f"]] if info.get("main_f") else [])))
        elif kind == "raw_zero_lmi" and len(pts) >= 2:
            # an LMI entry that still carries explicit zero coefficients: <p + 0 q, p + q> with the first factor
            # built by the Point constructor (nothing prunes an LMI entry); |entry| <= 1e4 is redundant
            p, q = rng.sample(pts, 2)
            a = b.nm("x")
            b.emit(op="praw", out=a, terms=[[p, 1.0], [q, 0.0]] if rng.random() < 0.5 else [[q, 0.0], [p, 1.0]])
            s_ = b.plin([(p, 1.0), (q, 1.0)])
            b.points.pop()
            e = b.inner(a, s_) if rng.random() < 0.5 else b.inner(s_, a)
            b.psd([[1e4, e], [e, 1e4]], target=rng.choice([P] + ([info["main_f"]] if info.get("main_f") else [])))
        elif kind == "same_name_metrics" and info.get("metrics"):
            # two performance metrics carrying the same label (names are free labels); the second is the larger one
            label = rng.choice(["worst-case", "metric", "Performance_metric_0", "tau"])
            for o in b.ops:
                if o["op"] == "metric":
                    o["name"] = label
            m = info["metrics"][0]
            e = b.elin([(m, r2(1.2 + rng.random()))], const=r2(0.05 + 0.1 * rng.random()))
            b.metric(e)
            b.ops[-1]["name"] = label
        elif kind == "manual_class_constraints" and info.get("main_f"):
            # the user generates the class constraints by hand before solving (once or twice)
            for _ in range(rng.choice([1, 1, 2])):
                b.emit(op="setcc", f=info["main_f"])
        elif kind == "two_func_lmis" and info.get("metrics") and len(b.funcs) >= 1:
            # LMIs attached to two different functions (Function.add_psd_matrix), each with a constant entry
            owners = list(b.funcs[:2])
            if len(owners) < 2:
                owners.append(b.func("ConvexFunction"))      # a second function that only carries its LMI
                b.funcs.pop()
            for k_, f_ in enumerate(owners):
                s_ = b.newexpr()
                m_ = info["metrics"][0] if k_ == 0 else b.elin([(info["metrics"][0], 1.0)], const=1.0)
                b.psd([[m_, s_], [s_, 1.0]], target=f_)
        elif kind == "running_sum" and pts and info.get("metrics"):
            # potentials written as running sums that start from an existing derived object:
            # `phi = d0; phi += c * gap` and `y = x1; y += c * g` (d0 and x1 stay in use under their own names)
            d0 = b.sq(rng.choice(pts))
            phi = b.elin([(d0, 1.0), (info["metrics"][0], r2(0.5 + rng.random()))])
            b.ops[-1].pop("acc", None)
            b.ops[-1].pop("style", None)
            b.ops[-1]["acc_from_first"] = True
            b.bound(phi, 7.5e3)
            b.bound(d0, 7.6e3)
            derived = [o["out"] for o in b.ops if o["op"] == "plin" and len(o["terms"]) >= 2]
            if derived and len(pts) >= 2:
                x1 = rng.choice(derived)
                y = b.plin([(x1, 1.0), (rng.choice(pts), r2(rng.uniform(-1, 1)))])
                b.ops[-1].pop("acc", None)
                b.ops[-1].pop("style", None)
                b.ops[-1]["acc_from_first"] = True
                b.points.pop()
                b.bound(b.sq(y), 7.7e3)
        elif kind == "orphan_psd" and info.get("metrics"):
            # a PSDMatrix object that is created but never added to the model
            b.psd([[info["metrics"][0], 0.0], [0.0, 1.0]], target=None)
            b.psds.pop()


DECORATIONS = ["extra_metric", "redundant_cons", "eq_cons", "func_cons", "lmi_sym", "lmi_asym", "lmi_func", "lmi3",
               "unused_query", "useless_partition", "orphan_psd", "part_cons", "zero_coef", "mirror", "leaf_metric",
               "leaf_sides", "composite_items", "double_reg", "idle_operator", "lmi_affine", "tiny_scale", "raw_zero_lmi", "same_name_metrics", "manual_class_constraints", "two_func_lmis", "running_sum"]


def build_model(rng, prefix="", template=None, n=None, decorations=None, names=None, weights=None,
                allow_decor=None, dup_names=None):
    """Emit one model.  Returns the Builder."""
    weights = weights or DEFAULT_WEIGHTS
    if template is None:
        keys = sorted(weights)
        template = rng.choices(keys, weights=[weights[k] for k in keys])[0]
    if n is None:
        n = rng.choice([1, 1, 2, 2, 3, 4])
    b = Builder(rng, prefix)
    b.names = rng.random() < 0.3 if names is None else names
    TEMPLATES[template](b, n, rng)
    b.info["n"] = n
    if decorations is None:
        pool = allow_decor if allow_decor is not None else DECORATIONS
        k = rng.choice([0, 0, 1, 1, 2, 3])
        decorations = [rng.choice(pool) for _ in range(k)] if pool else []
    decorate(b, rng, decorations)
    b.info["decorations"] = list(decorations)
    if b.names and dup_names is not False and rng.random() < 0.25:
        # names are free labels, nothing requires them to be unique: every named object of a kind gets the same one
        scope = rng.choice(["metric", "point", "all"])
        same = {"metric": "worst-case", "point": "x", "gradient": "g", "stationary": "x", "cons": "condition",
                "psd": "lmi", "func": "f", "value": "v"}
        for op in b.ops:
            if op.get("name") is not None and (scope == "all" or op["op"] == scope or
                                               (scope == "point" and op["op"] in ("gradient", "stationary"))):
                op["name"] = same.get(op["op"], "obj")
        b.info["dup_names"] = scope
    if b.names and rng.random() < 0.2:
        # LaTeX-style and other unusual but legal names
        odd = ["f_{1}", "h_{0}", "x_{k+1}", "{}", "100%", "%s", "a b", "x'", "{0}{1}"]
        for op in b.ops:
            if op.get("name") is not None and op["op"] in ("func", "point", "gradient", "stationary") and rng.random() < 0.6:
                op["name"] = rng.choice(odd) + ("" if rng.random() < 0.5 else str(rng.randrange(9)))
        b.info["odd_names"] = True
    # alternative routes of the public API to the same declarations
    for op in b.ops:
        if op["op"] in ("point", "func", "gradient") and op.get("name") is not None and rng.random() < 0.3:
            op["late_name"] = True       # obj.set_name(name) afterwards instead of name=... at creation
        if op["op"] == "stationary" and rng.random() < 0.3:
            op["bare"] = True            # stationary_point() returning the point only
    return b
