"""The executor: interprets an operation list against the real PEPit, owning every seam.

A *leg* is {"ops": [...], "opts": {...}}.  `run_leg` executes it in the current (forked) process and returns
a JSON-able result: per-op outcomes, observations, in-leg oracle violations, event-log digest, counters.
"""
import errno
import gc
import hashlib
import json
import sys
import traceback
from collections import Counter

import numpy as np

from sim import env, seam
from sim.mosek_ctl import CTL
from sim.peers import PeerSim, HarnessError, install_cvxpy_seam


def fhex(x):
    """Bit-exact, JSON-able rendering of numbers / arrays."""
    if x is None:
        return None
    if isinstance(x, (bool, str)):
        return x
    if isinstance(x, (int, np.integer)):
        return int(x)
    if isinstance(x, (float, np.floating)):
        return float(x).hex()
    a = np.asarray(x)
    if a.dtype == object:
        return repr(x)
    return [fhex(v) for v in a.tolist()] if a.ndim else float(a).hex()


def unhex(x):
    if isinstance(x, str):
        try:
            return float.fromhex(x)
        except ValueError:
            return x
    if isinstance(x, list):
        return [unhex(v) for v in x]
    return x


class SimStream(object):
    """S4: the output stream.  Records every write; can fail at the k-th write."""

    def __init__(self, world):
        self.world = world
        self.nwrites = 0
        self.fail_at = None
        self.fail_errno = errno.EPIPE
        self.h = hashlib.sha256()
        self.lines = 0
        self.tail = []

    def write(self, text):
        self.nwrites += 1
        if self.fail_at is not None and self.nwrites >= self.fail_at:
            self.fail_at = None
            self.world.fault_fired("F-stdout-" + errno.errorcode.get(self.fail_errno, str(self.fail_errno)))
            if self.fail_errno == errno.EPIPE:
                raise BrokenPipeError(errno.EPIPE, "Broken pipe (injected)")
            raise OSError(self.fail_errno, "injected stream failure")
        self.h.update(text.encode("utf-8", "replace"))
        self.lines += text.count("\n")
        if self.world.keep_output:
            self.tail.append(text)
        return len(text)

    def flush(self):
        pass

    def isatty(self):
        return False


class InjectedMemoryError(MemoryError):
    """A failing allocation injected by the simulator (a genuine MemoryError still aborts the leg)."""


class Interrupter(object):
    """S5: KeyboardInterrupt (Ctrl-C) or MemoryError (failing allocation) at the k-th line event inside PEPit frames."""

    def __init__(self, world):
        self.world = world
        self.count = 0
        self.at = None
        self.fn = None
        self.exc = "KeyboardInterrupt"
        self.prefix = env.REPO.rstrip("/") + "/PEPit/"
        self.fired_where = None

    def arm(self, at, fn=None, exc=None):
        self.count = 0
        self.at = at
        self.fn = fn
        self.exc = exc or "KeyboardInterrupt"
        self.fired_where = None
        sys.settrace(self._global)

    def disarm(self):
        sys.settrace(None)
        n = self.count
        self.at = None
        return n

    def _global(self, frame, event, arg):
        if frame.f_code.co_filename.startswith(self.prefix):
            return self._local
        return None

    def _local(self, frame, event, arg):
        if event == "line":
            if self.fn is not None and frame.f_code.co_name != self.fn:
                return self._local
            self.count += 1
            if self.at is not None and self.count == self.at:
                self.at = None
                self.fired_where = "%s:%d" % (frame.f_code.co_filename[len(self.prefix):], frame.f_lineno)
                if self.exc == "MemoryError":
                    self.world.fault_fired("F-alloc")
                    raise InjectedMemoryError("injected at line event %d" % self.count)
                self.world.fault_fired("F-interrupt")
                raise KeyboardInterrupt("injected at line event %d" % self.count)
        return self._local


class SolveRecord(object):
    def __init__(self, index, opi, op):
        self.index = index
        self.opi = opi
        self.op = op
        self.caps = []
        self.created = []       # (obj, kind, origin, owner)
        self.result = None
        self.exc = None
        self.pep_handle = op.get("P")
        self.pep = None
        self.transport_requested = (op.get("cfg") or {}).get("wrapper", "cvxpy")
        self.line_events = None
        self.writes = 0
        self.ledger_snapshot = None
        self.injected = False
        self.table_calls = []


class World(object):
    def __init__(self, opts):
        self.opts = dict(opts or {})
        self.h = {}
        self.allobj = {}
        self.kind = {}
        self.den = {}
        self.outcomes = []
        self.events = []
        self.solves = []
        self.cur = None
        self.faults = Counter()
        self.notes = Counter()
        self.reach = Counter()
        self.viol = []
        self.obs = {}
        self.residuals = {}
        self.want_raw = bool(self.opts.get("raw"))
        self.keep_output = bool(self.opts.get("keep_output"))
        self.peer = PeerSim(self)
        self.stream = SimStream(self)
        self.interrupter = Interrupter(self)
        self.leaf_label = {}     # id(leaf) -> label
        self.leaf_obj = {}       # label -> leaf object
        self.keep = []           # strong references (ids must stay unique)
        self.epoch_no = -1       # index of the current model (incremented by every `pep` op)
        self.name_epoch = {}     # handle -> epoch index
        self.leaf_epoch = {}     # leaf label -> epoch index
        self.block_requests = []
        self.temp_decomposed = []
        self.created_log = []    # every Constraint / PSDMatrix ever created: dict(obj, kind, origin, owner, opi, solve)
        self.current_opi = None
        self.epoch = None
        self.oracles = list(self.opts.get("oracles") or [])
        self.nops_done = 0

    # ---- bookkeeping ------------------------------------------------------------------------------
    def event(self, kind, payload):
        blob = json.dumps(payload, sort_keys=True, default=str)
        self.events.append((len(self.events), kind, hashlib.sha256(blob.encode()).hexdigest()[:16]))

    def fault_fired(self, kind):
        self.faults[kind] += 1
        if self.cur is not None:
            self.cur.injected = True
        self.event("fault", kind)

    def note(self, what):
        self.notes[what] += 1

    def violation(self, oracle, signature, detail):
        self.viol.append({"oracle": oracle, "signature": signature, "detail": detail,
                          "op": self.current_opi})

    def residual(self, oracle, value):
        value = float(value)
        if not (value <= self.residuals.get(oracle, -1.0)):
            self.residuals[oracle] = value

    def on_capture(self, cap):
        if self.cur is None:
            raise HarnessError("solver called outside a solve op")
        self.cur.caps.append(cap)
        self.event("capture", {"transport": cap.transport, "sizes": repr(cap.size_tuple()),
                               "obj": fhex(cap.obj_sig) if cap.obj_sig else None,
                               "rows": [[r["sense"], fhex(r["sig"])] for r in cap.rows],
                               "unreadable": cap.unreadable})

    # ---- labels and denotations -------------------------------------------------------------------
    def label_of(self, leaf, prefix):
        k = id(leaf)
        if k not in self.leaf_label:
            lab = "%s%d" % (prefix, len(self.leaf_label))
            self.leaf_label[k] = lab
            self.leaf_obj[lab] = leaf
            self.leaf_epoch[lab] = self.epoch_no
            self.keep.append(leaf)
        return self.leaf_label[k]

    def den_point(self, p):
        return {self.label_of(k, "p"): float(w) for k, w in p.decomposition_dict.items()}

    def den_expr(self, e):
        from PEPit.expression import Expression
        out = {}
        if e.get_is_leaf():
            return {("F", self.label_of(e, "e")): 1.0}
        for k, w in e.decomposition_dict.items():
            if isinstance(k, Expression):
                key = ("F", self.label_of(k, "e"))
            elif isinstance(k, tuple):
                a, b = self.label_of(k[0], "p"), self.label_of(k[1], "p")
                key = ("G",) + tuple(sorted((a, b)))
            elif isinstance(k, (int, float)) and k == 1:
                key = ("1",)
            else:
                raise HarnessError("unreadable decomposition key %r" % (type(k),))
            out[key] = out.get(key, 0.0) + float(w)
        return out

    @staticmethod
    def den_close(a, b, tol=1e-10):
        keys = set(a) | set(b)
        s = 1.0 + max([abs(v) for v in a.values()] + [abs(v) for v in b.values()] + [0.0])
        return all(abs(a.get(k, 0.0) - b.get(k, 0.0)) <= tol * s for k in keys)

    def bind(self, name, obj, kind, den=None):
        if name is None:
            return
        self.h[name] = obj
        self.allobj[name] = obj
        self.kind[name] = kind
        self.name_epoch[name] = self.epoch_no
        self.keep.append(obj)
        if den is None:
            if kind == "point":
                den = self.den_point(obj)
            elif kind == "expr":
                den = self.den_expr(obj)
        self.den[name] = den

    def get(self, name):
        if name not in self.h:
            raise KeyError(name)
        return self.h[name]

    # ---- creation hook (Constraint / PSDMatrix) -----------------------------------------------------
    def install_creation_hooks(self):
        from PEPit.constraint import Constraint
        from PEPit.psd_matrix import PSDMatrix
        world = self
        orig_c = Constraint.__init__
        orig_p = PSDMatrix.__init__

        def origin():
            f = sys._getframe(2)
            depth = 0
            while f is not None and depth < 40:
                name = f.f_code.co_name
                if name == "add_class_constraints" or name == "no_class_constraint_for_transpose":
                    return "class", f.f_locals.get("self")
                if name == "add_partition_constraints":
                    return "partition", f.f_locals.get("self")
                if name in ("prepare_heuristic", "heuristic"):
                    return "heuristic", None
                if name in ("check_feasibility", "_eval_points_and_function_values"):
                    return "internal", None
                if name in ("_solve_with_wrapper", "solve") and "PEPit" in f.f_code.co_filename:
                    return "solve", None
                f = f.f_back
                depth += 1
            return "op", None

        def c_init(self, *a, **k):
            orig_c(self, *a, **k)
            o, owner = origin()
            world._created(self, "cons", o, owner)

        def p_init(self, *a, **k):
            orig_p(self, *a, **k)
            o, owner = origin()
            world._created(self, "psd", o, owner)

        Constraint.__init__ = c_init
        PSDMatrix.__init__ = p_init

        # table-building calls of the generic generators (used by the C17 oracle only)
        from PEPit.function import Function
        orig_one = Function.add_constraints_from_one_list_of_points
        orig_two = Function.add_constraints_from_two_lists_of_points

        import inspect
        sig_one, sig_two = inspect.signature(orig_one), inspect.signature(orig_two)

        def _bound(sig, self_, a, k):
            # the hooks are transparent: whatever spelling the caller uses goes to the library unchanged; the record
            # is read through the library's *own* signature (and skipped if that cannot be done)
            try:
                ba = sig.bind(self_, *a, **k)
                ba.apply_defaults()
                return list(ba.arguments.values())[1:], ba.arguments
            except TypeError:
                return None, None

        def one(self, *a, **k):
            vals, named = _bound(sig_one, self, a, k)
            if world.cur is not None and vals is not None and len(vals) >= 3:
                world.cur.table_calls.append({"f": self, "name": vals[1], "l1": list(vals[0]),
                                              "l2": None, "fn": vals[2], "symmetry": False})
            return orig_one(self, *a, **k)

        def two(self, *a, **k):
            vals, named = _bound(sig_two, self, a, k)
            if world.cur is not None and vals is not None and len(vals) >= 4:
                l2 = vals[1]
                world.cur.table_calls.append({"f": self, "name": vals[2], "l1": list(vals[0]),
                                              "l2": list(l2) if l2 is not None else None, "fn": vals[3],
                                              "symmetry": bool(named.get("symmetry", False)),
                                              # a second list that is not given: what it stands for is the
                                              # library's business, the shape oracles give no verdict on that table
                                              "unknown": l2 is None})
            return orig_two(self, *a, **k)

        Function.add_constraints_from_one_list_of_points = one
        Function.add_constraints_from_two_lists_of_points = two

    def _created(self, obj, kind, origin, owner):
        rec = {"obj": obj, "kind": kind, "origin": origin, "owner": owner, "opi": self.current_opi,
               "solve": self.cur.index if self.cur is not None else None, "epoch": self.epoch_no}
        self.created_log.append(rec)
        if self.cur is not None:
            self.cur.created.append(rec)

    # ---- op interpreter ---------------------------------------------------------------------------
    def run(self, ops):
        for i, op in enumerate(ops):
            self.current_opi = i
            gc.collect()
            name = op["op"]
            fn = getattr(self, "op_" + name, None)
            if fn is None:
                raise HarnessError("unknown op %r" % name)
            out = {"status": "ok"}
            try:
                missing = [x for x in self._inputs(op) if x not in self.h]
                if missing:
                    out = {"status": "skipped", "missing": missing}
                else:
                    r = fn(op)
                    if r is not None:
                        out.update(r)
            except HarnessError:
                raise
            except KeyError as e:
                out = {"status": "skipped", "missing": [str(e)]}
            except BaseException as e:  # noqa  (KeyboardInterrupt is an injected fault here)
                if isinstance(e, (SystemExit, MemoryError)) and not isinstance(e, InjectedMemoryError):
                    raise
                out = {"status": "exc", "exc_type": type(e).__name__, "msg": str(e)[:300]}
                if self.opts.get("trace_exc"):
                    out["tb"] = traceback.format_exc()[-1500:]
            self.outcomes.append(out)
            self.event("op", {"i": i, "op": name, "status": out["status"], "exc": out.get("exc_type"),
                              "value": out.get("value")})
            self.nops_done += 1
            if "immut" in self.oracles:
                self.check_immutability()
            if "book" in self.oracles and out["status"] != "skipped":
                from sim import machines
                machines.check_book(self, i, op, out)
            if "blocks" in self.oracles and out["status"] != "skipped":
                from sim import machines
                machines.check_blocks(self, i, op, out)

    @staticmethod
    def _inputs(op):
        """Handles an op needs (used to skip ops whose producers were removed by minimisation)."""
        name = op["op"]
        need = []
        for k in ("P", "f", "x", "a", "b", "B", "g", "v", "h", "e", "c", "lhs", "rhs", "target", "mirror", "min_f"):
            val = op.get(k)
            if isinstance(val, str) and not (k in ("lhs", "rhs") and False):
                need.append(val)
        for t in op.get("terms") or []:
            if isinstance(t[0], str):
                need.append(t[0])
        for row in op.get("entries") or []:
            for v in row:
                if isinstance(v, str):
                    need.append(v)
        for v in (op.get("args") or {}).values():
            if isinstance(v, str) and v.startswith("@"):
                need.append(v[1:])
            if isinstance(v, list):
                need += [x[1:] for x in v if isinstance(x, str) and x.startswith("@")]
        for v in (op.get("params") or {}).values():
            if isinstance(v, str) and v.startswith("@"):
                need.append(v[1:])
        if name == "fexpr":
            def walk(t):
                if isinstance(t, str):
                    need.append(t)
                elif isinstance(t, list):
                    for u in t[1:]:
                        if isinstance(u, (str, list)):
                            walk(u)
            walk(op["expr"])
        if name == "drop":
            return []
        return need

    # -- model objects
    def op_pep(self, op):
        from PEPit import PEP
        self.epoch_no += 1
        P = PEP()
        self.bind(op["out"], P, "pep")
        self.epoch = {"pep": op["out"], "funcs": [], "parts": [], "metrics": [], "pep_cons": [], "pep_psd": [],
                      "func_cons": {}, "func_psd": {}, "part_cons": {}, "nsolves": 0, "last_ok": None}
        self.obs.setdefault("peps", []).append(op["out"])

    def _cls(self, name):
        import PEPit.functions as F
        import PEPit.operators as O
        import PEPit
        for mod in (F, O, PEPit):
            if hasattr(mod, name):
                return getattr(mod, name)
        if name.startswith("User"):
            from sim import userclasses
            reg = self.__dict__.setdefault("_userclasses", None) or userclasses.build()
            self._userclasses = reg
            if name in reg:
                return reg[name]
        raise HarnessError("unknown class %s" % name)

    def op_func(self, op):
        P = self.get(op["P"])
        params = {}
        for k, v in (op.get("params") or {}).items():
            params[k] = self.get(v[1:]) if isinstance(v, str) and v.startswith("@") else v
        if op.get("name") is not None and not op.get("late_name"):
            params["name"] = op["name"]
        if "reuse_gradient" in op:
            params["reuse_gradient"] = op["reuse_gradient"]
        f = P.declare_function(self._cls(op["cls"]), **params)
        if op.get("name") is not None and op.get("late_name"):
            f.set_name(op["name"])
        self.bind(op["out"], f, "func")
        self.epoch["funcs"].append(op["out"])
        self.reach["class:" + op["cls"]] += 1
        if op.get("transpose_out"):
            self.bind(op["transpose_out"], f.T, "func")
            self.epoch["funcs"].append(op["transpose_out"])

    def op_ofunc(self, op):
        """A function object instantiated directly, outside any PEP (no `declare_function`)."""
        f = self._cls(op["cls"])(**(op.get("params") or {}))
        self.bind(op["out"], f, "func")

    def op_opartition(self, op):
        from PEPit import BlockPartition
        self.bind(op["out"], BlockPartition(d=op["d"]), "part")

    def op_setcc(self, op):
        """The user generates the class constraints of a function by hand (public Function.set_class_constraints),
        e.g. to look at them before solving; the solve generates them again."""
        f = self.get(op["f"])
        f.set_class_constraints()
        return {"value": len(f.list_of_class_constraints)}

    def op_fexpr(self, op):
        def ev(t):
            if isinstance(t, str):
                return self.get(t)
            tag = t[0]
            if tag == "add":
                return ev(t[1]) + ev(t[2])
            if tag == "iadd":
                acc = ev(t[1])          # `total = partial; total += g`: the left operand stays reachable under its name
                acc += ev(t[2])
                return acc
            if tag == "sub":
                return ev(t[1]) - ev(t[2])
            if tag == "mul":
                return t[1] * ev(t[2])
            if tag == "rmul":
                return ev(t[2]) * t[1]
            if tag == "div":
                return ev(t[1]) / t[2]
            if tag == "neg":
                return -ev(t[1])
            raise HarnessError("bad fexpr %r" % (t,))
        f = ev(op["expr"])
        self.bind(op["out"], f, "func")
        self.epoch["funcs"].append(op["out"])

    def op_point(self, op):
        P = self.get(op["P"])
        if op.get("name") is not None and op.get("late_name"):
            x = P.set_initial_point()
            x.set_name(op["name"])
        else:
            x = P.set_initial_point(name=op.get("name")) if op.get("name") is not None else P.set_initial_point()
        self.bind(op["out"], x, "point")

    def op_newpoint(self, op):
        from PEPit import Point
        self.bind(op["out"], Point(), "point")

    def op_rename(self, op):
        """set_name on an existing object (function, point, expression, constraint, LMI) between two solves."""
        self.get(op["h"]).set_name(op["name"])

    def op_getobjective(self, op):
        """The user holds the objective variable of the PEP (public attribute `objective`, set by the first solve)."""
        obj = getattr(self.get(op["P"]), "objective", None)
        if obj is None:
            raise KeyError("objective")
        self.bind(op["out"], obj, "expr")

    def op_praw(self, op):
        """A combination built with the documented constructor Point(is_leaf=False, decomposition_dict=...), which
        keeps explicit zero weights (sums and products built with operators prune them)."""
        from PEPit import Point
        dd, den = {}, {}
        for hname, w in op["terms"]:
            t = self.get(hname)
            for leaf, c in t.decomposition_dict.items():
                dd[leaf] = dd.get(leaf, 0.0) + w * c
            for k, v in self.den[hname].items():
                den[k] = den.get(k, 0.0) + w * v
        pt = Point(is_leaf=False, decomposition_dict=dd)
        self.bind(op["out"], pt, "point", den={k: v for k, v in den.items() if v != 0})

    def op_newexpr(self, op):
        from PEPit import Expression
        self.bind(op["out"], Expression(), "expr")

    def op_stationary(self, op):
        f = self.get(op["f"])
        kw = {}
        if op.get("name") is not None:
            kw["name"] = op["name"]
        if op.get("bare"):
            # the default route returns the point only; its gradient and value are read from the recorded sample
            x = f.stationary_point(**kw)
            g, v = [(g_, v_) for (x_, g_, v_) in f.list_of_stationary_points if x_ is x][-1]
        else:
            x, g, v = f.stationary_point(return_gradient_and_function_value=True, **kw)
        outs = op["out"]
        self.bind(outs[0], x, "point")
        self.bind(outs[1], g, "point")
        self.bind(outs[2], v, "expr")

    def op_fixed(self, op):
        f = self.get(op["f"])
        x, g, v = f.fixed_point()
        outs = op["out"]
        self.bind(outs[0], x, "point")
        self.bind(outs[1], g, "point")
        self.bind(outs[2], v, "expr")

    def op_oracle(self, op):
        f, x = self.get(op["f"]), self.get(op["x"])
        g, v = f.oracle(x)
        self.bind(op["out"][0], g, "point")
        self.bind(op["out"][1], v, "expr")

    def op_gradient(self, op):
        f, x = self.get(op["f"]), self.get(op["x"])
        kw = {"name": op["name"]} if op.get("name") is not None and not op.get("late_name") else {}
        g = f.subgradient(x, **kw) if op.get("sub") else f.gradient(x, **kw)
        if op.get("name") is not None and op.get("late_name"):
            g.set_name(op["name"])
        self.bind(op["out"], g, "point")

    def op_value(self, op):
        f, x = self.get(op["f"]), self.get(op["x"])
        if op.get("call"):
            v = f(x)
        else:
            kw = {"name": op["name"]} if op.get("name") is not None else {}
            v = f.value(x, **kw)
        self.bind(op["out"], v, "expr")

    def op_addpoint(self, op):
        f = self.get(op["f"])
        f.add_point((self.get(op["x"]), self.get(op["g"]), self.get(op["v"])))

    def _lin_acc(self, terms, zero):
        """The user idiom `acc = null_point; for ...: acc += w * t` (shared module-level zero as accumulator)."""
        acc = zero
        for hname, w in terms:
            acc += w * self.get(hname)
        return acc

    def _lin(self, terms, zero, styles=None):
        acc = None
        for k, (hname, w) in enumerate(terms):
            t = self.get(hname)
            st = styles[k] if styles else None
            if st is not None:
                acc = self._styled(acc, t, w, st)
                continue
            t = t if w == 1 and acc is not None else w * t
            acc = t if acc is None else acc + t
        return acc if acc is not None else zero

    @staticmethod
    def _styled(acc, t, w, st):
        """Alternative spellings of `acc + w * t` that denote the same combination bit for bit."""
        if st == "sub":
            mt = (-w) * t
            return -mt if acc is None else acc - mt
        if st == "rmul":
            term = t * w
        elif st == "div":
            term = t / (1.0 / w)
        elif st == "int":
            term = int(w) * t
        elif st == "np":
            term = np.float64(w) * t if w != 1 else t * np.float64(w)
        elif st == "neg":
            term = -t if w == -1 else -((-w) * t)
        elif st == "bool":
            term = True * t
        else:
            term = w * t
        if acc is None:
            return term
        return term + acc if st == "radd" else acc + term

    def op_plin(self, op):
        from PEPit import null_point
        if op.get("acc_from_first") and op["terms"] and op["terms"][0][1] == 1 and len(op["terms"]) > 1:
            p = self.get(op["terms"][0][0])      # `y = x; y += ...` on points
            for hname, w in op["terms"][1:]:
                p += w * self.get(hname)
        else:
            p = self._lin_acc(op["terms"], null_point) if op.get("acc") else \
                self._lin(op["terms"], null_point, op.get("style"))
        den = {}
        for hname, w in op["terms"]:
            for k, v in self.den[hname].items():
                den[k] = den.get(k, 0.0) + w * v
        den = {k: v for k, v in den.items() if v != 0}
        self.bind(op["out"], p, "point", den=den)
        if "alg" in self.oracles and not self.den_close(den, self.den_point(p)):
            self.violation("O-ALG", "plin", {"expected": repr(den), "got": repr(self.den_point(p))})

    @staticmethod
    def _den_inner(da, db):
        out = {}
        for ka, va in da.items():
            for kb, vb in db.items():
                key = ("G",) + tuple(sorted((ka, kb)))
                out[key] = out.get(key, 0.0) + va * vb
        return out

    def op_inner(self, op):
        a, b = self.get(op["a"]), self.get(op["b"])
        e = a * b
        den = self._den_inner(self.den[op["a"]], self.den[op["b"]])
        self.bind(op["out"], e, "expr", den=den)
        if "alg" in self.oracles and not self.den_close(den, self.den_expr(e)):
            self.violation("O-ALG", "inner", {})

    def op_sq(self, op):
        a = self.get(op["a"])
        e = a * a if op.get("style") == "mul" else a ** 2
        den = self._den_inner(self.den[op["a"]], self.den[op["a"]])
        self.bind(op["out"], e, "expr", den=den)
        if "alg" in self.oracles and not self.den_close(den, self.den_expr(e)):
            self.violation("O-ALG", "sq", {})

    def op_elin(self, op):
        from PEPit.expression import Expression
        acc = None
        den = {}
        if op.get("acc") and op.get("terms"):
            from PEPit import null_expression
            acc = null_expression
        styles = op.get("style")
        for j, (hname, w) in enumerate(op.get("terms") or []):
            t = self.get(hname)
            if op.get("acc_from_first") and j == 0 and w == 1:
                acc = t          # `phi = d0; phi += ...`: the running sum starts as another name of an existing object
                for k, v in self.den[hname].items():
                    den[k] = den.get(k, 0.0) + v
                continue
            if op.get("acc_from_first") and j > 0:
                acc += w * t
                for k, v in self.den[hname].items():
                    den[k] = den.get(k, 0.0) + w * v
                continue
            if op.get("acc"):
                acc += w * t
            elif styles:
                acc = self._styled(acc, t, w, styles[j])
            else:
                t = t if w == 1 and acc is not None else w * t
                acc = t if acc is None else acc + t
            for k, v in self.den[hname].items():
                den[k] = den.get(k, 0.0) + w * v
        c = op.get("const")
        if acc is None:
            acc = Expression(is_leaf=False, decomposition_dict={1: float(c if c is not None else 0.0)})
            den[("1",)] = float(c if c is not None else 0.0)
        elif c is not None:
            cs = op.get("const_style")
            if cs == "radd":
                acc = c + acc
            elif cs == "sub":
                acc = acc - (-c)
            elif cs == "int" and float(c).is_integer():
                acc = acc + int(c)
            else:
                acc = acc + c
            den[("1",)] = den.get(("1",), 0.0) + c
        den = {k: v for k, v in den.items() if v != 0}
        self.bind(op["out"], acc, "expr", den=den)
        if "alg" in self.oracles and not self.den_close(den, self.den_expr(acc)):
            self.violation("O-ALG", "elin", {})

    def _side(self, v):
        return self.get(v) if isinstance(v, str) else v

    def op_cons(self, op):
        lhs, rhs = self._side(op["lhs"]), self._side(op["rhs"])
        rel = op["rel"]
        if rel == "<=":
            c = lhs <= rhs
        elif rel == ">=":
            c = lhs >= rhs
        elif rel == "==":
            c = lhs == rhs
        elif rel == "<":
            c = lhs < rhs
        elif rel == ">":
            c = lhs > rhs
        else:
            raise HarnessError("bad rel")
        # denotation of lhs - rhs (sense: <= 0 or == 0), computed by the harness
        dl = self.den[op["lhs"]] if isinstance(op["lhs"], str) else {("1",): float(op["lhs"])}
        dr = self.den[op["rhs"]] if isinstance(op["rhs"], str) else {("1",): float(op["rhs"])}
        sgn = -1.0 if rel in (">=", ">") else 1.0
        den = {}
        for k, v in dl.items():
            den[k] = den.get(k, 0.0) + sgn * v
        for k, v in dr.items():
            den[k] = den.get(k, 0.0) - sgn * v
        den = {k: v for k, v in den.items() if v != 0}
        self.bind(op["out"], c, "cons", den={"expr": den, "sense": "eq" if rel == "==" else "le"})
        if "alg" in self.oracles:
            if not self.den_close(den, self.den_expr(c.expression)) or \
                    c.equality_or_inequality != ("equality" if rel == "==" else "inequality"):
                self.violation("O-ALG", "cons", {})
        if op.get("target"):
            self._attach(op["out"], op["target"], op.get("how", "constraint"), op.get("name"))

    def _attach(self, cname, target, how, name):
        c = self.get(cname)
        t = self.get(target)
        tk = self.kind[target]
        kw = {"name": name} if name is not None else {}
        if tk == "pep":
            if how == "initial":
                t.set_initial_condition(c, **kw)
            else:
                t.add_constraint(c, **kw)
            self.epoch["pep_cons"].append(cname)
        elif tk == "func":
            t.add_constraint(c, **kw)
            self.epoch["func_cons"].setdefault(target, []).append(cname)
        elif tk == "part":
            t.add_constraint(c)
            self.epoch["part_cons"].setdefault(target, []).append(cname)
        else:
            raise HarnessError("cannot attach to %s" % tk)

    def op_attach(self, op):
        self._attach(op["c"], op["target"], op.get("how", "constraint"), op.get("name"))

    def op_psd(self, op):
        from PEPit import PSDMatrix
        entries = [[self._side(v) for v in row] for row in op["entries"]]
        if op.get("form") == "array":
            arr = np.empty((len(entries), len(entries)), dtype=object)
            for i, row in enumerate(entries):
                for j, v in enumerate(row):
                    arr[i, j] = v
            entries = arr
        elif op.get("form") == "tuple":
            entries = tuple(tuple(row) for row in entries)
        target = op.get("target")
        dens = [[(self.den[v] if isinstance(v, str) else {("1",): float(v)}) for v in row] for row in op["entries"]]
        before = len(self.created_log)
        if target is None:
            M = PSDMatrix(entries)
        else:
            t = self.get(target)
            kw = {"name": op["name"]} if op.get("name") is not None else {}
            if self.kind[target] == "pep":
                if op.get("prebuilt"):
                    M = t.add_psd_matrix(PSDMatrix(entries), **kw)
                else:
                    M = t.add_psd_matrix(entries, **kw)
            else:
                t.add_psd_matrix(entries, **kw)
                M = t.list_of_psd[-1]
        if op.get("reuse_buffer") and op.get("form") == "array":
            # the caller's work array is refilled for something else after the declaration
            for i in range(entries.shape[0]):
                for j in range(entries.shape[1]):
                    entries[i, j] = 123.0 if i == j else 0.0
        self.bind(op["out"], M, "psd", den=dens)
        if target is not None:
            if self.kind[target] == "pep":
                self.epoch["pep_psd"].append(op["out"])
            else:
                self.epoch["func_psd"].setdefault(target, []).append(op["out"])

    def op_metric(self, op):
        P = self.get(op["P"])
        e = self.get(op["e"])
        kw = {"name": op["name"]} if op.get("name") is not None else {}
        P.set_performance_metric(e, **kw)
        self.epoch["metrics"].append(op["e"])

    def op_partition(self, op):
        P = self.get(op["P"])
        B = P.declare_block_partition(d=op["d"])
        self.bind(op["out"], B, "part")
        self.epoch["parts"].append(op["out"])

    def op_block(self, op):
        B, x = self.get(op["B"]), self.get(op["x"])
        xb = B.get_block(x, op["k"])
        self.bind(op["out"], xb, "point")
        self.reach["get_block"] += 1
        self.block_requests.append((op["B"], op["x"]))

    def op_step(self, op):
        import PEPit.primitive_steps as S
        kind = op["kind"]
        args = {}
        for k, v in (op.get("args") or {}).items():
            if isinstance(v, str) and v.startswith("@"):
                args[k] = self.get(v[1:])
            elif isinstance(v, list):
                args[k] = [self.get(x[1:]) if isinstance(x, str) and x.startswith("@") else x for x in v]
            else:
                args[k] = v
        before = len(self.created_log)
        res = getattr(S, kind)(**args)
        kinds = {"proximal_step": "ppe", "inexact_gradient_step": "ppe", "exact_linesearch_step": "ppe",
                 "linear_optimization_step": "ppe", "bregman_gradient_step": "ppe",
                 "bregman_proximal_step": "ppepe", "epsilon_subgradient_step": "ppee",
                 "inexact_proximal_step": "ppeppee"}[kind]
        for name, obj, k in zip(op["out"], res, kinds):
            self.bind(name, obj, "point" if k == "p" else "expr")
        self.reach["step:" + kind] += 1
        # side constraints the step recorded on functions become declared items of the ledger
        new = [r for r in self.created_log[before:] if r["kind"] == "cons"]
        for fname in self.epoch["funcs"]:
            f = self.h[fname]
            for r in new:
                if any(r["obj"] is c for c in f.list_of_constraints):
                    cname = "%s#side%d" % (op["out"][0], len(self.h))
                    self.bind(cname, r["obj"], "cons",
                              den={"expr": self.den_expr(r["obj"].expression),
                                   "sense": "eq" if r["obj"].equality_or_inequality == "equality" else "le"})
                    self.epoch["func_cons"].setdefault(fname, []).append(cname)

    # -- edits between solves
    def op_edit(self, op):
        P = self.get(op["P"])
        what = op["what"]
        if what == "remove_constraint":
            c = self.get(op["c"])
            P.list_of_constraints = [x for x in P.list_of_constraints if x is not c]
            self.epoch["pep_cons"] = [n for n in self.epoch["pep_cons"] if n != op["c"]]
        elif what == "clear_metrics":
            P.list_of_performance_metrics = []
            self.epoch["metrics"] = []
        elif what == "remove_psd":
            M = self.get(op["c"])
            P.list_of_psd = [x for x in P.list_of_psd if x is not M]
            self.epoch["pep_psd"] = [n for n in self.epoch["pep_psd"] if n != op["c"]]
        else:
            raise HarnessError("bad edit")

    def op_release(self, op):
        """The session lets go of every object of an earlier model (rebinding its variables); the garbage
        collector then runs.  Finalizers of the library, if any, fire at this point of the current build."""
        import gc
        k = op["epoch"]
        if k < 0 or k >= self.epoch_no or k > self.epoch_no:
            return {"value": "no-such-epoch"}
        names = [n for n, e in self.name_epoch.items() if e == k]
        for n in names:
            self.h.pop(n, None)
            self.allobj.pop(n, None)
            self.den.pop(n, None)
            self.kind.pop(n, None)
            self.name_epoch.pop(n, None)
        labs = [l for l, e in self.leaf_epoch.items() if e == k]
        for l in labs:
            obj = self.leaf_obj.pop(l, None)
            self.leaf_epoch.pop(l, None)
            if obj is not None:
                self.leaf_label.pop(id(obj), None)
        self.created_log = [r for r in self.created_log if r.get("epoch") != k]
        for rec in self.solves:
            if getattr(rec, "epoch", None) == k:
                rec.pep = None
                rec.caps = []
                rec.created = []
                rec.table_calls = []
                rec.ctx = None
                rec.exc = None if rec.exc is None else type(rec.exc)("released")
        self.keep = []      # everything still needed is referenced by h / allobj / leaf_obj / created_log
        self.__dict__.pop("_book", None)
        self.__dict__.pop("_blocks", None)
        n = gc.collect()
        self.reach["released_epochs"] += 1
        return None

    def op_block_temp(self, op):
        """get_block on a temporary point written on the fly (nobody keeps the point itself)."""
        import gc
        from PEPit import null_point
        B = self.get(op["B"])
        tmp = self._lin(op["terms"], null_point)
        den = {}
        for hname, w in op["terms"]:
            for kk, v in self.den[hname].items():
                den[kk] = den.get(kk, 0.0) + w * v
        den = {kk: v for kk, v in den.items() if v != 0}
        d = B.get_nb_blocks()
        blocks = [B.get_block(tmp, k) for k in range(d)]
        acc = {}
        for bk in blocks:
            for kk, v in self.den_point(bk).items():
                acc[kk] = acc.get(kk, 0.0) + v
        acc = {kk: v for kk, v in acc.items() if abs(v) > 1e-14}
        if "blocks" in self.oracles and not self.den_close(acc, den):
            self.violation("C15/sum", "blocks-do-not-sum-back-to-the-point", {"B": op["B"], "temp": True, "d": d})
        xb = blocks[op["k"]]
        self.temp_decomposed.append((op["B"], den, list(blocks)))
        del tmp, blocks
        self.bind(op["out"], xb, "point")
        self.reach["get_block_temp"] += 1

    def op_setparam(self, op):
        """Edit a public class parameter of a function (e.g. f.L) between two solves."""
        f = self.get(op["f"])
        cur = getattr(f, op["attr"])
        if "value" in op:
            setattr(f, op["attr"], float(op["value"]))
            return
        if isinstance(cur, list):
            setattr(f, op["attr"], [c * op["scale"] for c in cur])
        else:
            setattr(f, op["attr"], cur * op["scale"])

    def op_drop(self, op):
        for n in op["handles"]:
            self.h.pop(n, None)

    # -- evaluation
    def op_eval(self, op):
        obj = self.get(op["h"])
        v = obj.eval()
        out = {"value": fhex(v)}
        if self._leafless(op["h"]):
            out["leafless"] = True
        if "fresh" in self.oracles:
            from sim import oracles
            oracles.check_fresh(self, op["h"], v)
        return out

    def _leafless(self, name):
        den = self.den.get(name)
        kind = self.kind.get(name)
        if kind == "cons":
            den = den["expr"]
        if kind == "psd":
            return all(all(k[0] == "1" for k in d) for row in den for d in row)
        if kind == "point":
            return not den
        if kind == "expr" or kind == "cons":
            return all(k[0] == "1" for k in den)
        return False

    def op_eval_dual(self, op):
        obj = self.get(op["h"])
        v = obj.eval_dual()
        return {"value": fhex(v)}

    def op_class_duals(self, op):
        f = self.get(op["f"])
        tabs = f.get_class_constraints_duals()
        out = {}
        for k, df in tabs.items():
            out[k] = {"index": [str(x) for x in df.index], "columns": [str(x) for x in df.columns],
                      "values": fhex(np.asarray(df.values, dtype=float)), "colname": str(df.columns.name)}
        if "tables" in self.oracles:
            from sim import oracles
            oracles.check_tables(self, op["f"], tabs)
        return {"value": out}

    def op_grab(self, op):
        """Bind an object reachable through a public attribute (e.g. a generated class constraint)."""
        src = self.get(op["h"])
        lst = getattr(src, op["attr"])
        obj = lst[op.get("index", 0)]
        kind = op.get("kind", "cons")
        den = None
        if kind == "cons":
            den = {"expr": self.den_expr(obj.expression),
                   "sense": "eq" if obj.equality_or_inequality == "equality" else "le"}
        elif kind == "psd":
            den = [[self.den_expr(e) for e in row] for row in obj.matrix_of_expressions]
        self.bind(op["out"], obj, kind, den=den)

    def op_check(self, op):
        """Run an in-leg oracle now (e.g. handles built after the solve)."""
        from sim import oracles
        rec = None
        for r in reversed(self.solves):
            if r.exc is None and r.result is not None:
                rec = r
                break
        if rec is None or self.solves[-1] is not rec:
            return {"value": "skipped"}
        if op["what"] == "handles":
            oracles.check_handles(self, rec)
        elif op["what"] == "attr_primal":
            oracles.check_attr_primal(self, rec)
        elif op["what"] == "class_descriptor":
            from sim import machines
            machines.class_descriptor(self, rec)
        elif op["what"] == "partition_relations":
            from sim import machines
            machines.check_partition_relations(self, rec)
        return None

    def op_attr(self, op):
        """Read a public attribute (names, counters) for the numbering observations of C12."""
        obj = self.get(op["h"])
        vals = {}
        for a in op["attrs"]:
            v = getattr(obj, a, None)
            vals[a] = v if isinstance(v, (int, str, type(None))) else repr(type(v))
        return {"value": vals}

    # -- solve
    def op_solve(self, op):
        P = self.get(op["P"])
        cfg = dict(op.get("cfg") or {})
        envc = dict(op.get("env") or {})
        rec = SolveRecord(len(self.solves), self.current_opi, op)
        rec.pep = P
        rec.epoch = self.epoch_no
        self.solves.append(rec)
        # S3: back-end discovery and licence script
        env.set_mosek_present(envc.get("mosek", "absent") == "present")
        lic = envc.get("licence") or {}
        CTL.days = lic.get("days", 100)
        CTL.checkout_raises = bool(lic.get("checkout_raises", False))
        CTL.expire_after_checks = lic.get("expire_after_checks")
        CTL.n_expiry_calls = 0
        self.peer.configure(op.get("peer"))
        kwargs = dict(cfg.get("kwargs") or {})
        call = dict(wrapper=cfg.get("wrapper", "cvxpy"), return_primal_or_dual=cfg.get("mode", "dual"),
                    verbose=cfg.get("verbose", 0))
        if "heuristic" in cfg:
            call["dimension_reduction_heuristic"] = cfg["heuristic"]
        if "eig" in cfg:
            call["eig_regularization"] = cfg["eig"]
        if "tol" in cfg:
            call["tol_dimension_reduction"] = cfg["tol"]
        call.update(kwargs)
        rec.ledger_snapshot = json.loads(json.dumps(self.epoch)) if self.epoch else None
        faults = op.get("faults") or {}
        w0 = self.stream.nwrites
        mosek_log0 = len(CTL.log)
        self.cur = rec
        try:
            if "stdout" in faults:
                self.stream.fail_at = w0 + int(faults["stdout"]["at"])
                self.stream.fail_errno = getattr(errno, faults["stdout"].get("errno", "EPIPE"))
            if "interrupt" in faults:
                self.interrupter.arm(int(faults["interrupt"]["at"]), faults["interrupt"].get("fn"),
                                     faults["interrupt"].get("exc"))
            elif op.get("count_lines"):
                self.interrupter.arm(None)
            try:
                if cfg.get("positional"):
                    # the documented parameter order of PEP.solve, spelled positionally
                    order = ["wrapper", "return_primal_or_dual", "verbose", "dimension_reduction_heuristic",
                             "eig_regularization", "tol_dimension_reduction"]
                    defaults = {"dimension_reduction_heuristic": None, "eig_regularization": 1e-3,
                                "tol_dimension_reduction": 1e-4}
                    npos = int(cfg["positional"])
                    rest = dict(call)
                    args = []
                    for name in order[:npos]:
                        args.append(rest.pop(name) if name in rest else defaults[name])
                    rec.result = P.solve(*args, **rest)
                else:
                    rec.result = P.solve(**call)
            finally:
                if "interrupt" in faults or op.get("count_lines"):
                    rec.line_events = self.interrupter.disarm()
                self.stream.fail_at = None
        except BaseException as e:  # noqa
            if isinstance(e, (SystemExit, MemoryError, HarnessError)) and not isinstance(e, InjectedMemoryError):
                raise
            rec.exc = e
        finally:
            self.cur = None
            rec.writes = self.stream.nwrites - w0
        rec.mosek_calls = CTL.log[mosek_log0:]
        if self.epoch is not None:
            self.epoch["nsolves"] += 1
        for cap in rec.caps:
            if cap.unreadable:
                self.note("unreadable_seam")
        ok = rec.exc is None and rec.result is not None
        spontaneous = any(getattr(c.answer, "spontaneous", False) for c in rec.caps if hasattr(c, "answer")) \
            or getattr(rec, "spont_flag", False)
        rec.spontaneous = spontaneous
        if ok and self.epoch is not None:
            self.epoch["last_ok"] = rec.index
        out = {"value": fhex(rec.result), "ncalls": len(rec.caps), "writes": rec.writes,
               "transports": [c.transport for c in rec.caps], "sizes": [repr(c.size_tuple()) for c in rec.caps],
               "line_events": rec.line_events, "spontaneous": spontaneous,
               "wrapper_name": getattr(P, "wrapper_name", None)}
        # accuracy of the REAL solver's own answers (same rule as O-PRIMAL): a status other than "optimal", or a Gram
        # matrix that is not positive semidefinite to 1e-6, means the solver's tolerance on this problem is worse
        # than the tolerances the value-comparison clauses use
        acc = True
        for c_ in rec.caps:
            a_ = getattr(c_, "answer", None)
            if a_ is None:
                continue
            if getattr(a_, "status", "optimal") != "optimal":
                acc = False
            G_ = getattr(a_, "G", None)
            if G_ is not None:
                try:
                    import numpy as _np
                    ev_ = _np.linalg.eigvalsh((_np.asarray(G_, dtype=float) + _np.asarray(G_, dtype=float).T) / 2)
                    if ev_.size and ev_.min() < -1e-6 * (1.0 + abs(ev_.max())):
                        acc = False
                except Exception:
                    pass
        out["accurate"] = acc
        if self.opts.get("dump_seam"):
            out["seam"] = [{"transport": c.transport, "sense": c.sense, "obj": list(c.obj_sig) if c.obj_sig else None,
                            "rows": [[r["sense"], list(r["sig"])] for r in c.rows],
                            "lmis": [[l["dim"], sorted([list(k), [list(x) for x in v]] for k, v in l["pairs"].items())]
                                     for l in c.lmis],
                            "unreadable": c.unreadable,
                            "status": getattr(getattr(c, "answer", None), "status", None),
                            "obj_value": getattr(getattr(c, "answer", None), "obj", None)} for c in rec.caps]
        if self.want_raw:
            out["raw"] = [c.raw_digest for c in rec.caps]
            calls = [(c[0],) + tuple(c[2:]) if c[0] not in ("Env", "checkoutlicense", "expirylicenses") else c
                     for c in rec.mosek_calls if c[0] not in ("set_Stream", "solutionsummary")]
            out["mosek_calls"] = hashlib.sha256(repr(calls).encode()).hexdigest() if calls else None
            out["mosek_ncalls"] = len(calls)
        if rec.exc is not None:
            out["status"] = "exc"
            out["exc_type"] = type(rec.exc).__name__
            out["msg"] = str(rec.exc)[:300]
            if self.opts.get("trace_exc"):
                out["tb"] = "".join(traceback.format_exception(type(rec.exc), rec.exc, rec.exc.__traceback__))[-2500:]
        if op.get("out"):
            self.h[op["out"]] = rec.result
            self.kind[op["out"]] = "value"
        if self.oracles:
            from sim import oracles
            oracles.after_solve(self, rec)
            if "pattern" in self.oracles and rec.caps:
                from sim import machines
                machines.check_pattern(self, rec)
        return out

    # ---- cross-invariant: operands never change their meaning ----------------------------------------
    def check_immutability(self):
        for name, kind in self.kind.items():
            if name not in self.h:
                continue
            if kind == "point":
                cur = self.den_point(self.h[name])
            elif kind == "expr":
                cur = self.den_expr(self.h[name])
            else:
                continue
            if not self.den_close(cur, self.den[name]):
                self.violation("O-IMMUT", "operand-changed:" + kind, {"handle": name})
                self.den[name] = cur

    # ---- result -----------------------------------------------------------------------------------
    def result(self):
        h = hashlib.sha256()
        for ev in self.events:
            h.update(repr(ev).encode())
        h.update(self.stream.h.hexdigest().encode())
        return {"outcomes": self.outcomes, "viol": self.viol, "digest": h.hexdigest(),
                "events": [list(ev) for ev in self.events] if self.opts.get("keep_events") else None,
                "nevents": len(self.events), "faults": dict(self.faults), "notes": dict(self.notes),
                "reach": dict(self.reach), "obs": self.obs, "residuals": self.residuals,
                "stdout_lines": self.stream.lines, "stdout_digest": self.stream.h.hexdigest(),
                "nsolves": len(self.solves), "ncaps": sum(len(s.caps) for s in self.solves),
                "output": "".join(self.stream.tail)[-4000:] if self.keep_output else None}


def run_leg(leg):
    """Execute one leg in this process (normally a forked child).  Returns a JSON-able dict."""
    env.bootstrap()
    CTL.reset()
    env.set_mosek_present(False)
    # The cyclic collector is a scheduler of its own: when it runs depends on allocation counters inherited from
    # whatever the forking process did before, and a collection that starts while an injected KeyboardInterrupt is
    # pending swallows it ("Exception ignored in garbage collection").  It therefore goes behind a seam: automatic
    # collection is off during a leg, everything inherited is frozen, and the interpreter collects at op boundaries.
    gc.disable()
    gc.freeze()
    world = World(leg.get("opts"))
    install_cvxpy_seam(world)
    world.install_creation_hooks()
    old_stdout = sys.stdout
    sys.stdout = world.stream
    try:
        world.run(leg["ops"])
        res = world.result()
        res["status"] = "ok"
    except HarnessError as e:
        res = world.result()
        res["status"] = "harness_error"
        res["error"] = "%s\n%s" % (e, traceback.format_exc()[-2000:])
    finally:
        sys.stdout = old_stdout
        sys.settrace(None)
    return res
