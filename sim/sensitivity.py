"""Sensitivity self-test: every mutant in /verif/mutants and every seeded change must make its owning check fail."""
import json
import os
import shutil
import subprocess
import sys
import time

VERIF = os.path.dirname(os.path.dirname(os.path.abspath(__file__)))


def _worktree(tag):
    d = "/tmp/sens_%s_%d" % (tag, os.getpid())
    subprocess.run(["git", "-C", "/repo", "worktree", "add", "-q", d, "HEAD"], check=True)
    return d


def _remove(d):
    subprocess.run(["git", "-C", "/repo", "worktree", "remove", "--force", d])
    shutil.rmtree(d, ignore_errors=True)


def _run_check(pid, repo, seed):
    env = dict(os.environ, VERIF_REPO=repo, VERIF_FRESH_REPLAY="0", VERIF_SEED=str(seed))
    t0 = time.time()
    p = subprocess.run([os.path.join(VERIF, "check"), pid, "--tier", "quick"], env=env, stdout=subprocess.PIPE,
                       stderr=subprocess.STDOUT)
    out = p.stdout.decode()
    sigs = [l.strip()[:160] for l in out.splitlines() if l.strip().startswith("oracle=")]
    code = p.returncode
    if code == 2 and "does not replay identically" in out:
        # a violation was found but the changed code itself is not deterministic (e.g. it depends on id()):
        # the check refuses to report a VIOLATION it cannot replay and exits 2; still a detection
        code = 1
        sigs.append("(found, not replayable: exit 2)")
    return code, sigs, time.time() - t0


def main(seed):
    only = os.environ.get("VERIF_SENS_ONLY")
    results = []
    saved = {}
    ev_dir = os.path.join(VERIF, "evidence")
    for f in os.listdir(ev_dir):
        if f.startswith("C"):
            saved[f] = open(os.path.join(ev_dir, f)).read()
    try:
        muts = json.load(open(os.path.join(VERIF, "mutants", "mutants.json")))
        for m in muts:
            if only and only not in m["id"]:
                continue
            d = _worktree(m["id"])
            try:
                path = os.path.join(d, m["file"])
                src = open(path).read()
                if m["old"] not in src:
                    results.append({"id": m["id"], "status": "pattern-not-found"})
                    print("%-42s PATTERN NOT FOUND" % m["id"])
                    continue
                open(path, "w").write(src.replace(m["old"], m["new"], 1))
                row = {"id": m["id"], "why": m["why"], "checks": {}}
                for pid in m["props"]:
                    code, sigs, wall = _run_check(pid, d, seed)
                    row["checks"][pid] = {"exit": code, "signatures": sigs[:4], "wall_s": round(wall, 1)}
                expect = m.get("expect", "fail")
                anyfail = any(c["exit"] == 1 for c in row["checks"].values())
                anyerr = any(c["exit"] not in (0, 1) for c in row["checks"].values())
                if expect == "pass":
                    row["control"] = True
                    row["caught"] = (not anyfail) and (not anyerr)     # a control is "right" when nothing fires
                    label = "QUIET (control ok)" if row["caught"] else "FALSE ALARM on an equivalent change"
                elif expect == "either":
                    row["caught"] = True
                    label = "either (%s)" % ("fires" if anyfail else "quiet")
                else:
                    row["caught"] = anyfail
                    label = "CAUGHT" if anyfail else "MISSED"
                results.append(row)
                print("%-42s %s  %s" % (m["id"], label, {p: c["exit"] for p, c in row["checks"].items()}))
                sys.stdout.flush()
            finally:
                _remove(d)
        sdir = os.path.join(VERIF, "seeded")
        for name in sorted(os.listdir(sdir)):
            if only and only not in name:
                continue
            meta = json.load(open(os.path.join(sdir, name, "meta.json")))
            pid = meta["detected_by"]["check"] if "detected_by" in meta else meta["property"]
            d = _worktree(name)
            try:
                p = subprocess.run(["git", "-C", d, "apply", os.path.join(sdir, name, "patch.diff")])
                if p.returncode != 0:
                    results.append({"id": "seeded/" + name, "status": "patch-does-not-apply"})
                    print("%-42s PATCH DOES NOT APPLY" % ("seeded/" + name))
                    continue
                code, sigs, wall = _run_check(pid, d, seed)
                results.append({"id": "seeded/" + name, "checks": {pid: {"exit": code, "signatures": sigs[:4],
                                                                         "wall_s": round(wall, 1)}},
                                "caught": code == 1})
                print("%-42s %s  %s" % ("seeded/" + name, "CAUGHT" if code == 1 else "MISSED", {pid: code}))
                sys.stdout.flush()
            finally:
                _remove(d)
    finally:
        for f, txt in saved.items():
            open(os.path.join(ev_dir, f), "w").write(txt)
        rp = os.path.join(VERIF, "replays")
        for f in os.listdir(rp):
            if f.endswith(".json"):
                os.remove(os.path.join(rp, f))
    if only:
        # partial run: merge into the last full report
        try:
            prev = json.load(open(os.path.join(VERIF, "selftests", "selftest-sensitivity.json")))["results"]
        except Exception:
            prev = []
        ids = set(r["id"] for r in results)
        results = [r for r in prev if r["id"] not in ids] + results
    missed = [r["id"] for r in results if r.get("caught") is False]
    broken = [r["id"] for r in results if "status" in r]
    with open(os.path.join(VERIF, "selftests", "selftest-sensitivity.json"), "w") as fh:
        json.dump({"seed": seed, "results": results, "missed": missed, "broken": broken}, fh, indent=1)
    print("sensitivity: %d changes, %d caught, %d missed %s, %d unusable %s" % (
        len(results), sum(1 for r in results if r.get("caught")), len(missed), missed, len(broken), broken))
    return 0 if not missed and not broken else 1
