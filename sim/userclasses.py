"""Function classes written by a *user* of PEPit with the documented helpers (Function.add_constraints_from_one /
two_lists_of_points): the library's extension point.  Imported lazily, after PEPit."""


def build():
    from PEPit.function import Function

    class UserQuasiStronglyMonotoneOperator(Function):
        """mu-strongly monotone operator, written by hand: the condition between all pairs of samples, and (again, as a
        user might) between the zeros of the operator and all samples, both declared symmetric."""

        def __init__(self, mu, is_leaf=True, decomposition_dict=None, reuse_gradient=False, name=None):
            super().__init__(is_leaf=is_leaf, decomposition_dict=decomposition_dict, reuse_gradient=reuse_gradient,
                             name=name)
            self.mu = mu

        def strong_monotonicity_i_j(self, xi, gi, fi, xj, gj, fj):
            return (gi - gj) * (xi - xj) - self.mu * (xi - xj) ** 2 >= 0

        def add_class_constraints(self):
            self.add_constraints_from_two_lists_of_points(list_of_points_1=self.list_of_points,
                                                          list_of_points_2=self.list_of_points,
                                                          constraint_name="strong_monotonicity",
                                                          set_class_constraint_i_j=self.strong_monotonicity_i_j,
                                                          symmetry=True)
            self.add_constraints_from_two_lists_of_points(list_of_points_1=self.list_of_stationary_points,
                                                          list_of_points_2=self.list_of_points,
                                                          constraint_name="strong_monotonicity_towards_zeros",
                                                          set_class_constraint_i_j=self.strong_monotonicity_i_j,
                                                          symmetry=True)

    return {"UserQuasiStronglyMonotoneOperator": UserQuasiStronglyMonotoneOperator}
