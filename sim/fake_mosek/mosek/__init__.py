"""Stand-in for the `mosek` package, written from the documented Optimizer API (not MOSEK).

Only what PEPit's MosekWrapper / CvxpyWrapper touch is provided: Env, Task, Error, a few enums and the
Task methods the wrapper calls.  The documented preconditions are enforced (mosek.Error otherwise):
 * appendsparsesymmat: lower-triangular entries only, indices in range, no duplicates;
 * putbaraij / putbarcj: the symmetric matrices' dimension must equal the bar-variable's dimension,
   indices of constraints / bar variables in range;
 * putaijlist / putclist / putvarbound / putconbound: indices in range;
 * appended scalar variables are fixed at 0, appended constraints are free until bounded.
The solver itself is supplied by the harness (sim.peers) through sim.mosek_ctl.CTL.on_optimize.
"""
import numpy as np

from sim.mosek_ctl import CTL


class Error(Exception):
    pass


class MosekException(Error):
    pass


class _Enum(object):
    def __init__(self, **kw):
        self.__dict__.update(kw)


feature = _Enum(pton="pton", pts="pts")
streamtype = _Enum(log="log", msg="msg", err="err", wrn="wrn")
boundkey = _Enum(fr="fr", up="up", lo="lo", fx="fx", ra="ra")
soltype = _Enum(itr="itr", bas="bas", itg="itg")
objsense = _Enum(maximize="maximize", minimize="minimize")
prosta = _Enum(prim_and_dual_feas="prim_and_dual_feas", prim_feas="prim_feas", dual_feas="dual_feas",
               prim_infeas="prim_infeas", dual_infeas="dual_infeas",
               prim_and_dual_infeas="prim_and_dual_infeas", ill_posed="ill_posed",
               prim_infeas_or_unbounded="prim_infeas_or_unbounded", unknown="unknown")
solsta = _Enum(optimal="optimal", unknown="unknown", prim_infeas_cer="prim_infeas_cer",
               dual_infeas_cer="dual_infeas_cer")
rescode = _Enum(ok="ok", err_license="err_license", err_license_expired="err_license_expired",
                trm_stall="trm_stall", trm_max_iterations="trm_max_iterations")


def _ints(a):
    return [int(v) for v in np.asarray(a).reshape(-1).tolist()]


def _floats(a):
    return [float(v) for v in np.asarray(a, dtype=float).reshape(-1).tolist()]


class Env(object):
    def __init__(self, *args, **kwargs):
        CTL.n_env += 1
        CTL.log.append(("Env",))

    def __enter__(self):
        return self

    def __exit__(self, *a):
        return False

    def Task(self, *args):
        t = Task(self)
        return t

    def checkoutlicense(self, feat):
        CTL.log.append(("checkoutlicense", str(feat)))
        if CTL.checkout_raises:
            raise Error("err_license: no licence could be checked out (stand-in)")

    def expirylicenses(self):
        CTL.n_expiry_calls += 1
        CTL.log.append(("expirylicenses",))
        if CTL.expire_after_checks is not None and CTL.n_expiry_calls > CTL.expire_after_checks:
            return -1
        return CTL.days

    def licence_valid_now(self):
        if CTL.checkout_raises:
            return False
        if CTL.expire_after_checks is not None and CTL.n_expiry_calls >= CTL.expire_after_checks:
            return False
        return CTL.days >= 0


class Task(object):
    def __init__(self, env=None):
        self.env = env
        self.bardims = []
        self.nvar = 0
        self.vb = []        # variable bounds (key, lo, up)
        self.ncon = 0
        self.cb = []        # constraint bounds
        self.symmats = []   # (dim, {(i, j): v}) lower triangular
        self.barA = {}      # (i, j) -> list of (symmat index, weight)   (replaced by a later call)
        self.A = {}         # (i, j) -> v
        self.c = {}         # j -> v
        self.barC = {}      # j -> list of (symmat index, weight)
        self.sense = objsense.minimize
        self.sol = None     # dict(xx, barx, y, bars) set by the peer
        self.prosta_value = prosta.unknown
        self.stream = None
        self.n_optimize = 0
        self.index = len(CTL.tasks)
        CTL.tasks.append(self)
        self._log("Task")

    def _log(self, name, *args):
        CTL.log.append((name, self.index) + args)

    # ---- streams -------------------------------------------------------------------------------
    def set_Stream(self, which, fn):
        self.stream = fn
        self._log("set_Stream", str(which))

    def solutionsummary(self, which):
        self._log("solutionsummary", str(which))
        if self.stream is not None:
            self.stream("(stand-in) solution summary: no solution yet\n")

    # ---- building ------------------------------------------------------------------------------
    def appendbarvars(self, dims):
        dims = _ints(dims)
        for d in dims:
            if d < 1:
                raise Error("appendbarvars: dimension must be >= 1")
        self.bardims += dims
        self._log("appendbarvars", tuple(dims))

    def appendvars(self, n):
        n = int(n)
        if n < 0:
            raise Error("appendvars: negative count")
        for _ in range(n):
            self.vb.append((boundkey.fx, 0.0, 0.0))
        self.nvar += n
        self._log("appendvars", n)

    def putvarbound(self, j, bk, bl, bu):
        j = int(j)
        if not 0 <= j < self.nvar:
            raise Error("putvarbound: variable index out of range")
        self.vb[j] = (bk, float(bl), float(bu))
        self._log("putvarbound", j, bk, float(bl), float(bu))

    def getnumcon(self):
        return self.ncon

    def getnumvar(self):
        return self.nvar

    def getmaxnumvar(self):
        return self.nvar

    def getnumbarvar(self):
        return len(self.bardims)

    def appendcons(self, n):
        n = int(n)
        for _ in range(n):
            self.cb.append((boundkey.fr, 0.0, 0.0))
        self.ncon += n
        self._log("appendcons", n)

    def appendsparsesymmat(self, dim, subi, subj, val):
        dim = int(dim)
        si, sj, sv = _ints(subi), _ints(subj), _floats(val)
        if not (len(si) == len(sj) == len(sv)):
            raise Error("appendsparsesymmat: argument lengths differ")
        d = {}
        for i, j, v in zip(si, sj, sv):
            if j > i:
                raise Error("appendsparsesymmat: only the lower triangular part may be specified")
            if not (0 <= j <= i < dim):
                raise Error("appendsparsesymmat: index out of range")
            if (i, j) in d:
                raise Error("appendsparsesymmat: duplicate element")
            d[(i, j)] = v
        self.symmats.append((dim, d))
        self._log("appendsparsesymmat", dim, tuple(si), tuple(sj), tuple(v.hex() for v in sv))
        return len(self.symmats) - 1

    def _check_sym(self, sub, weights, dim, what):
        sub, weights = _ints(sub), _floats(weights)
        if len(sub) != len(weights):
            raise Error(what + ": argument lengths differ")
        for s in sub:
            if not 0 <= s < len(self.symmats):
                raise Error(what + ": symmetric matrix index out of range")
            if self.symmats[s][0] != dim:
                raise Error(what + ": symmetric matrix has invalid dimension")
        return sub, weights

    def putbaraij(self, i, j, sub, weights):
        i, j = int(i), int(j)
        if not 0 <= i < self.ncon:
            raise Error("putbaraij: constraint index out of range")
        if not 0 <= j < len(self.bardims):
            raise Error("putbaraij: bar variable index out of range")
        sub, weights = self._check_sym(sub, weights, self.bardims[j], "putbaraij")
        self.barA[(i, j)] = list(zip(sub, weights))
        self._log("putbaraij", i, j, tuple(sub), tuple(w.hex() for w in weights))

    def putaijlist(self, subi, subj, val):
        si, sj, sv = _ints(subi), _ints(subj), _floats(val)
        if not (len(si) == len(sj) == len(sv)):
            raise Error("putaijlist: argument lengths differ")
        for i, j, v in zip(si, sj, sv):
            if not 0 <= i < self.ncon:
                raise Error("putaijlist: constraint index out of range")
            if not 0 <= j < self.nvar:
                raise Error("putaijlist: variable index out of range")
        for i, j, v in zip(si, sj, sv):
            self.A[(i, j)] = v
        self._log("putaijlist", tuple(si), tuple(sj), tuple(v.hex() for v in sv))

    def putaij(self, i, j, v):
        self.putaijlist([i], [j], [v])

    def putconbound(self, i, bk, bl, bu):
        i = int(i)
        if not 0 <= i < self.ncon:
            raise Error("putconbound: constraint index out of range")
        self.cb[i] = (bk, float(bl), float(bu))
        self._log("putconbound", i, bk, float(bl).hex(), float(bu).hex())

    def putclist(self, subj, val):
        sj, sv = _ints(subj), _floats(val)
        if len(sj) != len(sv):
            raise Error("putclist: argument lengths differ")
        for j in sj:
            if not 0 <= j < self.nvar:
                raise Error("putclist: variable index out of range")
        for j, v in zip(sj, sv):
            self.c[j] = v
        self._log("putclist", tuple(sj), tuple(v.hex() for v in sv))

    def putcj(self, j, v):
        self.putclist([j], [v])

    def putbarcj(self, j, sub, weights):
        j = int(j)
        if not 0 <= j < len(self.bardims):
            raise Error("putbarcj: bar variable index out of range")
        sub, weights = self._check_sym(sub, weights, self.bardims[j], "putbarcj")
        self.barC[j] = list(zip(sub, weights))
        self._log("putbarcj", j, tuple(sub), tuple(w.hex() for w in weights))

    def putobjsense(self, s):
        if s not in (objsense.maximize, objsense.minimize):
            raise Error("putobjsense: invalid sense")
        self.sense = s
        self._log("putobjsense", s)

    # ---- helpers used by the harness (not part of the mosek API) ----------------------------------
    def sym_dense(self, lst, dim):
        M = np.zeros((dim, dim))
        for s, w in lst:
            for (i, j), v in self.symmats[s][1].items():
                M[i, j] += w * v
                if i != j:
                    M[j, i] += w * v
        return M

    # ---- solving -------------------------------------------------------------------------------
    def optimize(self, **kwargs):
        self.n_optimize += 1
        self._log("optimize", tuple(sorted(kwargs)))
        if kwargs:
            raise TypeError("optimize() got unexpected keyword arguments %r" % (sorted(kwargs),))
        if CTL.optimize_requires_licence and self.env is not None and not self.env.licence_valid_now():
            raise Error("err_license_expired: the licence has expired (stand-in)")
        if CTL.on_optimize is None:
            raise Error("stand-in mosek: no peer installed")
        if self.stream is not None:
            self.stream("(stand-in) optimizer started\n")
        CTL.on_optimize(self)
        if self.stream is not None:
            self.stream("(stand-in) optimizer terminated\n")
        return rescode.ok

    @staticmethod
    def tril(M):
        n = M.shape[0]
        out = []
        for j in range(n):
            for i in range(j, n):
                out.append(M[i, j])
        return np.array(out, dtype=float)

    def _need_sol(self):
        if self.sol is None:
            raise Error("err_sol_undefined: the solution is not defined (stand-in)")

    def getbarxj(self, which, j):
        self._need_sol()
        if not 0 <= j < len(self.bardims):
            raise Error("getbarxj: bar variable index out of range")
        return self.tril(self.sol["barx"][j])

    def getbarsj(self, which, j):
        self._need_sol()
        if not 0 <= j < len(self.bardims):
            raise Error("getbarsj: bar variable index out of range")
        return self.tril(self.sol["bars"][j])

    def getxx(self, which):
        self._need_sol()
        return np.array(self.sol["xx"], dtype=float)

    def gety(self, which):
        self._need_sol()
        return np.array(self.sol["y"], dtype=float)

    def getprosta(self, which):
        return self.prosta_value

    def getsolsta(self, which):
        return solsta.optimal if self.prosta_value == prosta.prim_and_dual_feas else solsta.unknown
