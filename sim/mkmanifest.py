"""Writes /verif/MANIFEST.json from the table below (kept in one place so it stays valid)."""
import json
import os

VERIF = os.path.dirname(os.path.dirname(os.path.abspath(__file__)))

CLAIMED = {
    "C01": ("exploration", "6 C01",
            "Seeded simulated sessions against real PEPit with the solver behind a seam: a TAGGED peer returns pairwise distinct numbers so every exposed multiplier is attributed exactly to the row / cone that carried its constraint (both transports, fall-backs, licence faults); a REAL peer (CLARABEL) checks the identity, signs and PSD-ness and that the dual-mode value is the constant of the identity. Sampling, not proof.",
            "rows identified by functional at two generic probes; MOSEK transport is a stand-in written from the documented API (KKT self-checked); REAL thresholds 1e-4 relative",
            "deterministic simulation: scripted/tagged solver peer at the cvxpy and MOSEK seams, seeded session search"),
    "C02": ("exploration", "6 C02",
            "Same sessions, primal side: with a TAGGED peer (slightly indefinite Gram tag) the Gram matrix of the evaluated leaf points must be the PSD projection of the peer's G, every leaf expression the peer's F entry, every handle (built before or after the solve) its harness denotation at the leaf values; with a REAL peer every delivered constraint / LMI holds and the objective is the smallest metric.",
            "leaf counters are the SDP column indices; REAL thresholds 1e-3 relative (CLARABEL), 5e-3 (SCS); MOSEK stand-in",
            "deterministic simulation: tagged/real solver peer at the seams, independent ledger of denotations"),
    "C04": ("exploration", "6 C04",
            "Declaration schedules: the same logical sample DAG is linearised in several random admissible orders (stationary point early/late, differentiable evaluations permuted, constraints anywhere); the class rows / LMIs generated must be the same set over canonical leaf labels (TAGGED) and give the same value (REAL); every table cell must hold a condition iff its two samples differ by identity; for classes documenting necessary-and-sufficient conditions the value must not change under duplicated / aliased / extra samples.",
            "necessary-only classes are only required not to increase; REAL thresholds 1e-4 (1e-3 with an aliasing equality); interpolant construction not decided",
            "deterministic simulation: seeded schedule search over linearisations of a declaration DAG, twin forks"),
    "C05": ("exploration", "6 C05",
            "Exactly-once delivery and content of every declared constraint / LMI / metric at the solver seam, at every solve of a seeded session history, on both transports (dense cvxpy, sparse stand-in MOSEK), against an independent ledger of what the session declared.",
            "class items expected at a solve = objects created inside add_class_constraints / add_partition_constraints during that solve; functionals compared at two generic probes",
            "deterministic simulation: seam capture of the SDP vs session ledger, seeded session search"),
    "C07": ("exploration", "6 C07",
            "Histories of 5-40 oracle / gradient / value / stationary / fixed-point / step / add_point operations on leaf functions and combinations (zero and cancelling weights, nesting) against a reference model of the bookkeeping; invariants I1-I4 evaluated after every operation over every function's recorded samples and everything returned so far.",
            "decompositions compared at 1e-11 relative; direct declarations on identically-zero combinations are a listed finding (K-18)",
            "deterministic simulation: seeded operation histories against an executable reference model"),
    "C11": ("exploration", "6 C11",
            "One session executed through the cvxpy transport and through a stand-in MOSEK peer from twin forks: the SDPs captured at the two seams must be the same multiset of rows / LMIs / objective, values must agree (REAL), multipliers and primal values must be attributed exactly in the exposed sign convention on each side (TAGGED), and a solve that works on one transport must work on the other; includes >= 129 rows, LMI creation order != sending order, leaves created during class generation, heuristics, licence faults.",
            "verdicts are relative to the stand-in's reading of the MOSEK documentation; the stand-in self-checks the MOSEK-form KKT system on every REAL solve",
            "deterministic simulation: two simulated solver peers, seam equivalence, seeded session search"),
    "C12": ("exploration", "6 C12",
            "Model B after a seeded history of up to 6 earlier models ended built / solved / failed (scripted solver, licence, option faults) / interrupted (KeyboardInterrupt at a line event, stream error at a write) / abandoned, versus B alone in a pristine fork: solver input compared bit for bit (cvxpy constants and structure / literal MOSEK call sequence), and all results, evaluations, dual tables, names and counters bit for bit.",
            "CLARABEL / SCS bit-reproducibility across processes (measured); interrupt granularity = source line",
            "deterministic simulation: crash-point and fault injection over process histories, pristine twin"),
    "C13": ("exploration", "6 C13",
            "Re-solve histories: 2-5 rounds of edit / option or transport change / optional failing solve / solve / evaluation of held handles, each round compared with a freshly built equivalent model in a pristine fork (value, seam sizes exactly), freshness of every held handle (exact with disjoint tags per round), multipliers and delivery of the latest solve.",
            "evaluations right after a failed round are not judged; REAL value threshold 1e-4",
            "deterministic simulation: seeded solve/edit histories with fault injection, pristine twin per round"),
    "C14": ("exploration", "6 C14",
            "The two-phase exchange with the solver under every heuristic / tolerance / regularisation / transport: all problems captured at the seam; dual value and multipliers must be those of problem 1 (twin without heuristic, exact), problem n = problem 1 + the single row objective >= wc - tol with objective <W, G>, primal value within tol, final instance feasible, trace not increased; scripted faults on calls >= 2.",
            "spontaneous SolverError of the real solver = no verdict; thresholds 1e-4 relative",
            "deterministic simulation: seam capture of a multi-call exchange, second-phase fault injection, twin"),
    "C15": ("exploration", "6 C15",
            "Histories of get_block requests over 1-3 partitions (leaf points, combinations, aliases, gradients, repeated, some never decomposed) with invariants after every request (sum-back, same object, d = 1 identity) and, at every TAGGED solve, the relations delivered at the seam per partition compared as a set with the harness's own reference model of all cross-block orthogonalities, plus a concrete coordinate-projection model.",
            "set semantics (multiplicity is C05 / C13); functionals at two generic probes",
            "deterministic simulation: seeded histories against an executable reference model, seam capture"),
    "C16": ("fault_enumeration", "6 C16",
            "Enumerated fault matrix: object kind x accessor x state (never solved / solve returned None / solve raised / built after a failed solve) must raise ValueError; every no-solution status x transport on the first solver call must make solve return None; second-phase and undetermined statuses and raised solver errors must never give a number different from the fault-free twin's; invalid options must raise; plus genuinely unbounded / infeasible models on a REAL peer.",
            "constants (objects depending on no leaf) are outside the must-raise matrix; the stand-in's certificate content is arbitrary non-zero numbers",
            "deterministic simulation: enumerated solver / licence / status fault injection at both seams"),
    "C17": ("exploration", "6 C17",
            "get_class_constraints_duals() of every leaf function after every successful TAGGED solve: entry (i, j) must be the number the peer returned for the seam row whose functional is the constraint the class's pair formula gives for samples (i, j), 0 elsewhere; shapes and labels = samples; every class constraint's name must address its own cell; must not raise.",
            "pair (i, j) defined by the lists the class passes to the generic table builders; rows identified by functional",
            "deterministic simulation: tagged solver peer, seam-row attribution of table cells"),
}

NOT_APPLICABLE = {
    "C03": "validity of the per-class inequalities for every member of the class is a pure function of (parameters, member, samples): no state, peer, order or fault for a simulator to schedule or inject",
    "C06": "operator algebra on immutable values: a pure function of the expression tree and the leaf assignment (the one stateful clause, operands never change, is monitored as an unclaimed cross-invariant O-IMMUT inside other machines)",
    "C08": "each primitive step's recorded relation vs its definition is a pure function of its arguments; 'the real operation satisfies it' is formula validity",
    "C09": "compares two pure functions of the parameters (a solve and a numerical experiment on a real function); nothing to schedule or inject",
    "C10": "parameter sweep of a computed value against a closed form: a pure function of the parameters, not a simulation target",
}


def main():
    checks = []
    for pid in sorted(CLAIMED):
        cat, ref, text, note, tech = CLAIMED[pid]
        checks.append({
            "property_id": pid,
            "quick_cmd": "./check %s --tier quick" % pid,
            "thorough_cmd": "./check %s --tier thorough" % pid,
            "evidence_file": "/verif/evidence/%s.json" % pid,
            "replay_cmd_template": "./check %s --replay {path}" % pid,
            "engine": "sim",
            "level_claimed": {"category": cat, "text": text, "design_ref": "DESIGN.md section " + ref},
            "level_note": note,
            "technique": tech,
        })
    na = [{"property_id": p, "reason": r} for p, r in sorted(NOT_APPLICABLE.items()) if p not in CLAIMED]
    man = {
        "version": 1,
        "setup_cmd": "./check setup",
        "hooks": {"guard": "PEPIT_VERIF", "enable": "no hook in /repo is needed: every seam (cvxpy.Problem.solve, the mosek package on sys.path, sys.stdout, sys.settrace, class attributes) is reachable from outside; checks import PEPit from /repo's working tree",
                  "baseline_off_cmd": "cd /repo && /venv/bin/python -m pytest -ra -q -p no:cacheprovider --timeout=900 --continue-on-collection-errors",
                  "source_commits": [], "add_only": True},
        "engines": [{"name": "sim", "path": "/verif/sim", "serves_properties": sorted(CLAIMED),
                     "kind_free_text": "deterministic simulator: forked pristine interpreter per run, operation-list executor over real PEPit, simulated solver peers (REAL / TAGGED / SCRIPTED-FAULT) at the cvxpy and MOSEK seams, simulated stdout and interrupts, seeded plan generator, delta-debugging minimiser, replay files"}],
        "checks": checks,
        "not_applicable": na,
        "notes": "Family: deterministic simulation with fault injection. See DESIGN.md. Exit codes: 0 held, 1 violation (VIOLATION line + replay file), 2 harness error.",
    }
    with open(os.path.join(VERIF, "MANIFEST.json"), "w") as fh:
        json.dump(man, fh, indent=1)
    print("MANIFEST.json written: %d checks, %d not applicable" % (len(checks), len(na)))


if __name__ == "__main__":
    main()
