"""Writes /verif/MANIFEST.json from the table below (kept in one place so it stays valid)."""
import json
import os

VERIF = os.path.dirname(os.path.dirname(os.path.abspath(__file__)))

CLAIMED = {
    "C01": ("exploration", "6 C01",
            "Seeded simulated sessions against real PEPit with the solver behind a seam: a TAGGED peer returns pairwise distinct numbers so every exposed multiplier is attributed exactly to the row / cone that carried its constraint (both transports, fall-backs, licence faults); a REAL peer (CLARABEL) checks the identity, signs and PSD-ness and that the dual-mode value is the constant of the identity. Sampling, not proof.",
            "rows identified by functional at two generic probes; MOSEK transport is a stand-in written from the documented API (KKT self-checked); REAL thresholds 1e-4 relative",
            "deterministic simulation: scripted/tagged solver peer at the cvxpy and MOSEK seams, seeded session search"),
    "C05": ("exploration", "6 C05",
            "Exactly-once delivery and content of every declared constraint / LMI / metric at the solver seam, at every solve of a seeded session history, on both transports (dense cvxpy, sparse stand-in MOSEK), against an independent ledger of what the session declared.",
            "class items expected at a solve = objects created inside add_class_constraints / add_partition_constraints during that solve; functionals compared at two generic probes",
            "deterministic simulation: seam capture of the SDP vs session ledger, seeded session search"),
}

NOT_APPLICABLE = {
    "C03": "validity of the per-class inequalities for every member of the class is a pure function of (parameters, member, samples): no state, peer, order or fault for a simulator to schedule or inject",
    "C06": "operator algebra on immutable values: a pure function of the expression tree and the leaf assignment (the one stateful clause, operands never change, is monitored as an unclaimed cross-invariant O-IMMUT inside other machines)",
    "C08": "each primitive step's recorded relation vs its definition is a pure function of its arguments; 'the real operation satisfies it' is formula validity",
    "C09": "compares two pure functions of the parameters (a solve and a numerical experiment on a real function); nothing to schedule or inject",
    "C10": "parameter sweep of a computed value against a closed form: a pure function of the parameters, not a simulation target",
}


def main():
    checks = []
    for pid in sorted(CLAIMED):
        cat, ref, text, note, tech = CLAIMED[pid]
        checks.append({
            "property_id": pid,
            "quick_cmd": "./check %s --tier quick" % pid,
            "thorough_cmd": "./check %s --tier thorough" % pid,
            "evidence_file": "/verif/evidence/%s.json" % pid,
            "replay_cmd_template": "./check %s --replay {path}" % pid,
            "engine": "sim",
            "level_claimed": {"category": cat, "text": text, "design_ref": "DESIGN.md section " + ref},
            "level_note": note,
            "technique": tech,
        })
    na = [{"property_id": p, "reason": r} for p, r in sorted(NOT_APPLICABLE.items()) if p not in CLAIMED]
    man = {
        "version": 1,
        "setup_cmd": "./check setup",
        "hooks": {"guard": "PEPIT_VERIF", "enable": "no hook in /repo is needed: every seam (cvxpy.Problem.solve, the mosek package on sys.path, sys.stdout, sys.settrace, class attributes) is reachable from outside; checks import PEPit from /repo's working tree",
                  "baseline_off_cmd": "cd /repo && /venv/bin/python -m pytest -ra -q -p no:cacheprovider --timeout=900 --continue-on-collection-errors",
                  "source_commits": [], "add_only": True},
        "engines": [{"name": "sim", "path": "/verif/sim", "serves_properties": sorted(CLAIMED),
                     "kind_free_text": "deterministic simulator: forked pristine interpreter per run, operation-list executor over real PEPit, simulated solver peers (REAL / TAGGED / SCRIPTED-FAULT) at the cvxpy and MOSEK seams, simulated stdout and interrupts, seeded plan generator, delta-debugging minimiser, replay files"}],
        "checks": checks,
        "not_applicable": na,
        "notes": "Family: deterministic simulation with fault injection. See DESIGN.md. Exit codes: 0 held, 1 violation (VIOLATION line + replay file), 2 harness error.",
    }
    with open(os.path.join(VERIF, "MANIFEST.json"), "w") as fh:
        json.dump(man, fh, indent=1)
    print("MANIFEST.json written: %d checks, %d not applicable" % (len(checks), len(na)))


if __name__ == "__main__":
    main()
