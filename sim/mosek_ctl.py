"""Control block shared between the harness and the stand-in `mosek` package.

The stand-in module may be dropped from sys.modules and re-imported (back-end discovery faults);
its state therefore lives here.
"""


class Ctl(object):
    def __init__(self):
        self.reset()

    def reset(self):
        # licence script
        self.days = 100              # value returned by expirylicenses()
        self.checkout_raises = False  # checkoutlicense raises mosek.Error
        self.expire_after_checks = None  # after n calls of expirylicenses() the licence reads expired
        self.optimize_requires_licence = True
        self.n_expiry_calls = 0
        # peer hook: callable(task) -> None ; set by the world for each solve op
        self.on_optimize = None
        # global call log (list of tuples) and list of tasks created, in order
        self.log = []
        self.tasks = []
        self.n_env = 0


CTL = Ctl()
