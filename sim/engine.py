"""Generic check loop: generate -> execute (forked legs) -> judge -> match findings -> minimise -> evidence."""
import concurrent.futures
import copy
import hashlib
import importlib
import json
import multiprocessing
import os
import random
import sys
import time
import traceback
from collections import Counter

from sim import runner

VERIF = os.path.dirname(os.path.dirname(os.path.abspath(__file__)))
DEFAULT_SEED = 20240229


def load_prop(pid):
    mod = importlib.import_module("sim.props." + pid.lower())
    return mod.PROP


def run_seed(seed, pid, tier, index):
    h = hashlib.sha256(("%d:%s:%s:%d" % (seed, pid, tier, index)).encode()).hexdigest()
    return int(h[:16], 16)


# --------------------------------------------------------------------------------------------------
def run_plan(prop, plan, fresh=False):
    """Execute every leg of a plan and judge it.  Returns a result dict."""
    legs = prop.legs(plan)
    res = {}
    status = "ok"
    errors = []
    for name, leg in legs.items():
        if os.environ.get("VERIF_KEEP_EVENTS"):
            leg = dict(leg, opts=dict(leg.get("opts") or {}, keep_events=True))
        r = runner.run_leg_fresh_interpreter(leg) if (fresh or leg.get("fresh")) else runner.run_leg_forked(leg)
        res[name] = r
        if r.get("status") in ("harness_error", "timeout"):
            status = r["status"]
            errors.append("%s: %s" % (name, r.get("error", "")[:1500]))
    out = {"status": status, "errors": errors, "violations": [], "legs": {}}
    h = hashlib.sha256()
    faults, reach, notes, residuals = Counter(), Counter(), Counter(), {}
    steps = 0
    for name in sorted(res):
        r = res[name]
        h.update(name.encode())
        h.update(str(r.get("digest")).encode())
        faults.update(r.get("faults") or {})
        reach.update(r.get("reach") or {})
        notes.update(r.get("notes") or {})
        steps += int(r.get("nevents") or 0)
        for k, v in (r.get("residuals") or {}).items():
            if not (v <= residuals.get(k, -1.0)):
                residuals[k] = v
    if os.environ.get("VERIF_KEEP_EVENTS"):
        out["legs_events"] = {name: [res[name].get("events"), res[name].get("stdout_digest"),
                                     [(o.get("status"), o.get("exc_type"), str(o.get("value"))[:60], o.get("line_events"))
                                      for o in (res[name].get("outcomes") or [])]] for name in res}
    out.update(digest=h.hexdigest(), faults=dict(faults), reach=dict(reach), notes=dict(notes), residuals=residuals,
               steps=steps)
    if status != "ok":
        return out
    viol = []
    judged = prop.judged_legs(plan)
    for name in judged:
        for v in res[name].get("viol") or []:
            if prop.accept_oracle(v["oracle"]):
                v = dict(v)
                v["leg"] = name
                viol.append(v)
    try:
        extra, info = prop.judge(plan, res)
    except Exception as e:  # noqa
        out["status"] = "harness_error"
        out["errors"].append("judge: %s\n%s" % (e, traceback.format_exc()[-2000:]))
        return out
    viol += extra
    out["violations"] = viol
    out["info"] = info
    for k, v in (info.get("residuals") or {}).items():
        if not (v <= out["residuals"].get(k, -1.0)):
            out["residuals"][k] = v
    out["counters"] = dict(info.get("counters") or {})
    out["nontrivial"] = bool(info.get("nontrivial", True))
    out["noverdict"] = bool(info.get("noverdict", False))
    out["faults"].update({k: out["faults"].get(k, 0) + v for k, v in (info.get("faults") or {}).items()})
    return out


def _work(args):
    pid, tier, seed, indices = args
    prop = load_prop(pid)
    outs = []
    for idx in indices:
        t0 = time.time()
        rs = run_seed(seed, pid, tier, idx)
        rng = random.Random(rs)
        try:
            plan = prop.generate(rng, tier, idx)
            plan["_seed"] = rs
            plan["_index"] = idx
            out = run_plan(prop, plan)
        except Exception as e:  # noqa
            plan = None
            out = {"status": "harness_error", "errors": ["generate/run: %s\n%s" % (e, traceback.format_exc()[-2000:])],
                   "violations": []}
        out["index"] = idx
        out["wall"] = time.time() - t0
        if out.get("violations") or out["status"] != "ok" or idx < 3:
            out["plan"] = plan
        if plan is not None:
            out["tag"] = prop.tag(plan)
            out["nops"] = prop.plan_size(plan)
        outs.append(out)
    return outs


# --------------------------------------------------------------------------------------------------
# findings
# --------------------------------------------------------------------------------------------------
def load_findings():
    path = os.path.join(VERIF, "known_findings.json")
    if not os.path.exists(path):
        return {"findings": [], "fixed": []}
    with open(path) as fh:
        return json.load(fh)


def match_finding(findings, pid, v):
    for f in findings["findings"]:
        if pid != f["property"] and pid not in (f.get("also_in") or []):
            continue
        if f["oracle"] == v["oracle"] and f["signature"] == v["signature"]:
            return f
    return None


# --------------------------------------------------------------------------------------------------
# minimisation (delta debugging over the plan's op lists + property-specific simplifications)
# --------------------------------------------------------------------------------------------------
def _get(plan, path):
    cur = plan
    for k in path:
        cur = cur[k]
    return cur


def _set(plan, path, value):
    cur = plan
    for k in path[:-1]:
        cur = cur[k]
    cur[path[-1]] = value


def same_violation(prop, plan, sig):
    out = run_plan(prop, plan)
    if out["status"] != "ok":
        return False, out
    for v in out["violations"]:
        if (v["oracle"], v["signature"]) == sig:
            return True, out
    return False, out


def minimise(prop, plan, sig, max_runs=120, deadline=None):
    runs = [0]
    best = copy.deepcopy(plan)

    def test(cand):
        if runs[0] >= max_runs or (deadline and time.time() > deadline):
            return False
        runs[0] += 1
        ok, _ = same_violation(prop, cand, sig)
        return ok

    # property-specific simplifications first (drop faults, cheaper peers, ...)
    changed = True
    while changed and runs[0] < max_runs:
        changed = False
        for cand in prop.simplifications(best):
            if test(cand):
                best = cand
                changed = True
                break
    # ddmin on every op list
    for path in prop.oplists(best):
        ops = list(_get(best, path))
        n = 2
        while len(ops) >= 2 and runs[0] < max_runs:
            chunk = max(1, len(ops) // n)
            reduced = False
            for start in range(0, len(ops), chunk):
                cand_ops = ops[:start] + ops[start + chunk:]
                if not prop.keep_ops_valid(cand_ops):
                    continue
                cand = copy.deepcopy(best)
                _set(cand, path, cand_ops)
                if test(cand):
                    ops = cand_ops
                    best = cand
                    n = max(n - 1, 2)
                    reduced = True
                    break
            if not reduced:
                if chunk == 1:
                    break
                n = min(len(ops), n * 2)
    return best, runs[0]


# --------------------------------------------------------------------------------------------------
def check(pid, tier="quick", seed=None, workers=None, budget_s=None, nruns=None, replay=None, quiet=False):
    from sim import env
    env.bootstrap()
    prop = load_prop(pid)
    seed = DEFAULT_SEED if seed is None else int(seed)
    print("VERIF_SEED=%d property=%s tier=%s repo=%s" % (seed, pid, tier, env.REPO))
    sys.stdout.flush()
    t0 = time.time()
    findings = load_findings()
    if replay:
        with open(replay) as fh:
            doc = json.load(fh)
        plan = doc["plan"]
        out = run_plan(prop, plan)
        print("replay status=%s digest=%s" % (out["status"], out.get("digest")))
        for v in out["violations"]:
            print("  violation oracle=%s signature=%s detail=%s" % (v["oracle"], v["signature"],
                                                                  json.dumps(v.get("detail"), default=str)[:300]))
        want = (doc.get("oracle"), doc.get("signature"))
        hit = any((v["oracle"], v["signature"]) == want for v in out["violations"])
        if out["status"] != "ok":
            print("HARNESS-ERROR %s" % out["errors"][:1])
            return 2
        if hit:
            known = match_finding(findings, pid, {"oracle": want[0], "signature": want[1]})
            if known:
                print("KNOWN-FINDING: property=%s %s" % (pid, known["what"]))
                return 0
            print("VIOLATION property=%s replay=%s" % (pid, replay))
            return 1
        print("not reproduced (expected %s / %s); digest recorded %s" % (want[0], want[1], doc.get("digest")))
        return 0

    workers = workers or int(os.environ.get("VERIF_WORKERS", "0")) or min(16, os.cpu_count() or 1)
    nruns = nruns or prop.RUNS[tier]
    budget_s = budget_s or prop.BUDGET[tier]
    # 1. replay listed findings
    known_lines = []
    known_counts = Counter()
    for f in findings["findings"]:
        if pid != f["property"] and pid not in (f.get("also_in") or []):
            continue
        rp = (f.get("replays") or {}).get(pid) or (f.get("replay") if pid == f["property"] else None)
        if not rp:
            continue
        path = os.path.join(VERIF, rp)
        with open(path) as fh:
            doc = json.load(fh)
        out = run_plan(prop, doc["plan"])
        if out["status"] != "ok":
            print("HARNESS-ERROR while replaying %s: %s" % (f["id"], out["errors"][:1]))
            return 2
        if any((v["oracle"], v["signature"]) == (f["oracle"], f["signature"]) for v in out["violations"]):
            known_lines.append("KNOWN-FINDING: property=%s %s [%s]" % (pid, f["what"], f["id"]))
    # 2. explore
    chunk = max(1, min(16, nruns // (workers * 8) or 1))
    tasks = [(pid, tier, seed, list(range(s, min(s + chunk, nruns)))) for s in range(0, nruns, chunk)]
    results = []
    ctx = multiprocessing.get_context("fork")
    stopped_early = False
    with concurrent.futures.ProcessPoolExecutor(max_workers=workers, mp_context=ctx) as pool:
        futs = [pool.submit(_work, t) for t in tasks]
        try:
            for fut in concurrent.futures.as_completed(futs, timeout=budget_s * 3 + 600):
                results += fut.result()
                if time.time() - t0 > budget_s and not stopped_early:
                    stopped_early = True
                    for f2 in futs:
                        f2.cancel()
        except concurrent.futures.TimeoutError:
            print("HARNESS-ERROR: worker pool did not finish")
            return 2
        except concurrent.futures.CancelledError:
            pass
    results.sort(key=lambda r: r["index"])
    explore_wall = time.time() - t0
    # 3. classify
    harness = [r for r in results if r["status"] in ("harness_error",)]
    timeouts = [r for r in results if r["status"] == "timeout"]
    new_viol = []
    seen_sig = {}
    for r in results:
        for v in r.get("violations") or []:
            f = match_finding(findings, pid, v)
            if f:
                known_counts[f["id"]] += 1
                continue
            key = (v["oracle"], v["signature"])
            seen_sig.setdefault(key, []).append((r, v))
    replays = []
    deadline = time.time() + max(60.0, budget_s)
    for key, lst in sorted(seen_sig.items()):
        r, v = min(lst, key=lambda rv: rv[0].get("nops", 0))
        plan = r["plan"]
        small, nmin = minimise(prop, plan, key, deadline=deadline)
        ok, out = same_violation(prop, small, key)
        if not ok:
            small = plan
            ok, out = same_violation(prop, small, key)
        okf, outf = (ok, out)
        if ok and os.environ.get("VERIF_FRESH_REPLAY", "1") == "1":
            outf = run_plan(prop, small, fresh=True)
            okf = outf["status"] == "ok" and any((x["oracle"], x["signature"]) == key for x in outf["violations"])
        name = "%s-%d-%s.json" % (pid, r["index"], hashlib.sha256(repr(key).encode()).hexdigest()[:8])
        path = os.path.join(VERIF, "replays", name)
        os.makedirs(os.path.dirname(path), exist_ok=True)
        vv = next((x for x in out.get("violations", []) if (x["oracle"], x["signature"]) == key), v)
        with open(path, "w") as fh:
            json.dump({"property": pid, "verif_seed": seed, "tier": tier, "index": r["index"], "oracle": key[0],
                       "signature": key[1], "detail": vv.get("detail"), "digest": out.get("digest"),
                       "occurrences": len(lst), "minimiser_runs": nmin, "reproduced_in_fork": ok,
                       "reproduced_in_fresh_interpreter": okf, "fresh_digest_equal": outf.get("digest") == out.get("digest"),
                       "plan": small}, fh, indent=1, default=str)
        if not okf or outf.get("digest") != out.get("digest"):
            print("HARNESS-ERROR: violation %s/%s of run %d does not replay identically in a fresh interpreter "
                  "(fork=%s fresh=%s digests %s %s) file=%s" % (key[0], key[1], r["index"], ok, okf,
                                                                out.get("digest"), outf.get("digest"), path))
            harness.append(r)
            continue
        replays.append((key, path, len(lst), vv))
    # 4. evidence
    wall = time.time() - t0
    ev = prop.evidence(results, tier, seed, wall)
    cov = ev["coverage"]
    cov.setdefault("runs_per_hour", int(len(results) / max(explore_wall, 1e-9) * 3600))
    cov["workers"] = workers
    cov["stopped_on_wall_budget"] = stopped_early
    cov["known_findings_reproduced"] = [l for l in known_lines]
    cov["known_finding_hits_during_exploration"] = dict(known_counts)
    cov["harness_errors"] = len(harness)
    cov["timeouts"] = len(timeouts)
    cov["new_violation_signatures"] = [{"oracle": k[0], "signature": k[1], "occurrences": n, "replay": p}
                                       for k, p, n, _ in replays]
    ev["violations"] = len(replays)
    os.makedirs(os.path.join(VERIF, "evidence"), exist_ok=True)
    with open(os.path.join(VERIF, "evidence", pid + ".json"), "w") as fh:
        json.dump(ev, fh, indent=1, default=str)
    for f in findings["findings"]:
        if known_counts.get(f["id"]) and not any(("[%s]" % f["id"]) in l for l in known_lines):
            known_lines.append("KNOWN-FINDING: property=%s %s [%s]" % (pid, f["what"], f["id"]))
    for l in known_lines:
        print(l)
    print("runs=%d distinct_nontrivial=%d wall=%.1fs runs/hour=%d faults=%s noverdict=%d known_hits=%s" % (
        len(results), cov["distinct_nontrivial"], wall, cov["runs_per_hour"], cov.get("faults_fired"),
        cov.get("no_verdict_runs", 0), dict(known_counts)))
    for key, path, n, vv in replays:
        print("  oracle=%s signature=%s occurrences=%d detail=%s" % (key[0], key[1], n,
                                                                   json.dumps(vv.get("detail"), default=str)[:400]))
        print("VIOLATION property=%s replay=%s" % (pid, path))
    if replays:
        return 1
    if harness:
        for r in harness[:3]:
            print("HARNESS-ERROR run %s: %s" % (r.get("index"), (r.get("errors") or ["?"])[0][:1500]))
        return 2
    if len(timeouts) > max(2, len(results) // 50):
        print("HARNESS-ERROR: %d legs timed out" % len(timeouts))
        return 2
    return 0
