"""./check <ID> [--tier quick|thorough] [--seed N] [--workers W] [--budget-s S] [--runs N] [--replay FILE]"""
import argparse
import os
import sys

HERE = os.path.dirname(os.path.dirname(os.path.abspath(__file__)))
sys.path.insert(0, HERE)


def main():
    ap = argparse.ArgumentParser()
    ap.add_argument("what")
    ap.add_argument("--tier", default=os.environ.get("VERIF_TIER", "quick"))
    ap.add_argument("--seed", default=os.environ.get("VERIF_SEED"))
    ap.add_argument("--workers", type=int, default=None)
    ap.add_argument("--budget-s", type=float, default=None)
    ap.add_argument("--runs", type=int, default=None)
    ap.add_argument("--replay", default=None)
    args = ap.parse_args()
    if args.tier not in ("quick", "thorough"):
        args.tier = "quick"
    seed = None
    if args.seed not in (None, ""):
        try:
            seed = int(args.seed)
        except ValueError:
            seed = None
    if args.what.startswith("selftest"):
        from sim import selftest
        return selftest.main(args.what, seed=seed, workers=args.workers)
    if args.what == "setup":
        from sim import env
        env.bootstrap()
        import cvxpy
        print("setup ok: cvxpy %s, solvers %s, PEPit from %s" % (cvxpy.__version__, cvxpy.installed_solvers(), env.REPO))
        return 0
    from sim import engine
    return engine.check(args.what.upper(), tier=args.tier, seed=seed, workers=args.workers, budget_s=args.budget_s,
                        nruns=args.runs, replay=args.replay)


if __name__ == "__main__":
    sys.exit(main())
