"""Solver peers behind the two seams: cvxpy.Problem.solve (S1) and the stand-in mosek Task.optimize (S2).

Modes: REAL (a genuine solve), TAGGED (no solve: distinct arbitrary numbers, status optimal),
FAULT (scripted failure on the n-th solver call of one PEP.solve).
"""
import types

import numpy as np

from sim import seam
from sim.mosek_ctl import CTL


class HarnessError(Exception):
    pass


class SpontaneousPeerFault(Exception):
    """A real solver failed without being asked to; the run yields no verdict."""


_ORIG_CVXPY_SOLVE = None


def install_cvxpy_seam(world):
    """Replace cvxpy.Problem.solve by the simulated peer (child process only)."""
    global _ORIG_CVXPY_SOLVE
    import cvxpy as cp
    if _ORIG_CVXPY_SOLVE is None:
        _ORIG_CVXPY_SOLVE = cp.Problem.solve

    def sim_solve(problem, *args, **kwargs):
        return world.peer.cvxpy_solve(problem, *args, **kwargs)

    cp.Problem.solve = sim_solve
    CTL.on_optimize = lambda task: world.peer.mosek_optimize(task)


class Answer(object):
    """What a peer returned, in the convention PEPit exposes (see DESIGN 3.3)."""

    def __init__(self):
        self.status = None
        self.G = None
        self.F = None           # indexed by leaf-expression counter / mosek variable index
        self.M = []             # value of each LMI matrix variable (aligned with capture.lmis)
        self.row_dual = []      # aligned with capture.rows
        self.lmi_dual = []      # aligned with capture.lmis (PSD multiplier, exposed sign)
        self.gram_dual = None   # residual (exposed sign)
        self.obj = None
        self.mode = None
        self.link_dual = {}     # (lmi index, link position) -> dual of the entry-link equality


class PeerSim(object):
    def __init__(self, world):
        self.world = world
        self.cfg = {"mode": "tagged"}
        self.ncall = 0

    def configure(self, cfg):
        self.cfg = dict(cfg or {})
        self.cfg.setdefault("mode", "tagged")
        self.ncall = 0

    # ---- common -----------------------------------------------------------------------------------
    def _script_for_call(self):
        script = self.cfg.get("script") or {}
        return script.get(str(self.ncall))

    def _rng(self):
        return np.random.default_rng([int(self.cfg.get("tagseed", 0)) & 0xFFFFFFFF, self.ncall])

    @staticmethod
    def _psd_tag(rng, d, scale=1.0, rank=None):
        r = rank or d
        B = rng.standard_normal((d, r))
        return scale * (B @ B.T) / max(r, 1) + 0.05 * np.diag(rng.random(d))

    # ---- cvxpy seam -------------------------------------------------------------------------------
    def cvxpy_solve(self, problem, *args, **kwargs):
        import cvxpy as cp
        w = self.world
        self.ncall += 1
        cap = seam.read_cvxpy(problem, want_raw=w.want_raw)
        cap.kwargs = {k: (v if isinstance(v, (int, float, str, bool, type(None))) else repr(v))
                      for k, v in sorted(kwargs.items())}
        cap.callno = self.ncall
        w.on_capture(cap)
        sc = self._script_for_call()
        mode = self.cfg["mode"]
        ans = Answer()
        cap.answer = ans
        if sc is not None:
            w.fault_fired("F-solver-" + sc["action"] + ("-" + sc.get("status", "") if sc.get("status") else ""))
            ans.mode = "fault"
            if sc["action"] == "raise":
                ans.status = "raised"
                raise cp.SolverError("injected solver failure (call %d)" % self.ncall)
            if sc["action"] == "status":
                status = sc["status"]
                if sc.get("values") == "perturbed":
                    self._cvxpy_base_answer(problem, cap, ans, mode, kwargs)
                    if ans.status in ("optimal", "optimal_inaccurate"):
                        rng = self._rng()
                        for v in problem.variables():
                            val = np.asarray(v.value, dtype=float)
                            pert = 1e-5 * rng.standard_normal(val.shape)
                            if val.ndim == 2:
                                pert = (pert + pert.T) / 2
                            v.value = val + pert
                        problem._status = status
                        ans.status = status
                        self._collect_cvxpy_answer(problem, cap, ans)
                    return problem.value
                # no values
                for v in problem.variables():
                    v.value = None
                for c in problem.constraints:
                    for dv in c.dual_variables:
                        dv.value = None
                problem._status = status
                problem._value = {"infeasible": -np.inf, "infeasible_inaccurate": -np.inf,
                                  "unbounded": np.inf, "unbounded_inaccurate": np.inf}.get(status, None)
                if cap.sense == "min" and problem._value is not None:
                    problem._value = -problem._value
                problem._solver_stats = types.SimpleNamespace(solver_name="SIMPEER", solve_time=0.0, setup_time=0.0,
                                                              num_iters=0, extra_stats=None)
                ans.status = status
                return problem._value
            raise HarnessError("unknown script action %r" % (sc,))
        self._cvxpy_base_answer(problem, cap, ans, mode, kwargs)
        return problem.value

    def _cvxpy_base_answer(self, problem, cap, ans, mode, kwargs):
        import cvxpy as cp
        if mode == "real":
            ans.mode = "real"
            kw = dict(kwargs)
            solver = self.cfg.get("solver", "CLARABEL")
            if kw.get("solver") in (None, "MOSEK") or self.cfg.get("force_solver"):
                kw["solver"] = solver
            ans.solver = kw["solver"]
            kw.pop("verbose", None)
            kw.update(self.cfg.get("solver_kwargs") or {})
            try:
                _ORIG_CVXPY_SOLVE(problem, **kw)
            except cp.SolverError as e:
                self.world.note("spontaneous_solver_error")
                ans.status = "raised"
                ans.spontaneous = True
                raise
            ans.status = problem.status
            if kwargs.get("verbose"):
                print("(sim peer) %s finished: %s" % (kw["solver"], problem.status))
            self._collect_cvxpy_answer(problem, cap, ans)
            return
        if mode != "tagged":
            raise HarnessError("unknown peer mode %r" % (mode,))
        ans.mode = "tagged"
        if cap.unreadable or cap.vars is None:
            raise HarnessError("tagged peer cannot answer an unreadable problem: %r" % (cap.unreadable,))
        rng = self._rng()
        nG, nF = cap.nG, cap.nF
        Gt = self._psd_tag(rng, nG, rank=max(1, min(nG, 1 + nG // 2)))
        if self.cfg.get("indef") and nG >= 2:
            v = rng.standard_normal(nG)
            v /= np.linalg.norm(v)
            Gt = Gt - (np.min(np.linalg.eigvalsh(Gt)) + 1e-3) * np.outer(v, v)
        Gt = (Gt + Gt.T) / 2
        Ft = rng.standard_normal(nF) + 0.01 * np.arange(nF)
        cap.vars["G"].value = Gt
        cap.vars["F"].value = Ft
        for M in cap.vars["M"]:
            M.value = self._psd_tag(rng, int(M.shape[0]))
        for c in problem.constraints:
            dv = c.dual_variables[0]
            name = type(c).__name__
            if name == "PSD":
                d = int(c.args[0].shape[0])
                dv.value = self._psd_tag(rng, d)
            elif name in ("Inequality", "NonPos", "NonNeg"):
                dv.value = np.abs(rng.standard_normal(dv.shape)) + 0.1
            else:
                dv.value = rng.standard_normal(dv.shape)
        problem._status = "optimal"
        problem._value = float(np.asarray(problem.objective.args[0].value).reshape(-1)[0])
        problem._solver_stats = types.SimpleNamespace(solver_name="SIMPEER", solve_time=0.0, setup_time=0.0,
                                                      num_iters=0, extra_stats=None)
        if kwargs.get("verbose"):
            print("(sim peer) tagged answer, call %d" % self.ncall)
        ans.status = "optimal"
        self._collect_cvxpy_answer(problem, cap, ans)

    @staticmethod
    def _collect_cvxpy_answer(problem, cap, ans):
        if cap.vars is None:
            return
        G, F = cap.vars["G"], cap.vars["F"]
        ans.G = None if G.value is None else np.array(G.value, dtype=float)
        ans.F = None if F.value is None else np.array(F.value, dtype=float)
        ans.M = []
        ans.lmi_dual = []
        cons = problem.constraints
        for l in cap.lmis:
            if l.get("var") is not None:
                ans.M.append(None if l["var"].value is None else np.array(l["var"].value, dtype=float))
            else:
                ans.M.append(None)
            dv = cons[l["pos"]].dual_value
            ans.lmi_dual.append(None if dv is None else np.array(dv, dtype=float))
            for (pos, key) in l["links"]:
                dvl = cons[pos].dual_value
                ans.link_dual[(id(l), pos)] = None if dvl is None else float(np.asarray(dvl).reshape(-1)[0])
        ans.row_dual = []
        for r in cap.rows:
            dv = r["cons"].dual_value
            ans.row_dual.append(None if dv is None else float(np.asarray(dv).reshape(-1)[r["sub"]]))
        gd = cap.gram_cons.dual_value
        ans.gram_dual = None if gd is None else np.array(gd, dtype=float)
        ov = problem.objective.args[0].value
        ans.obj = None if ov is None else float(np.asarray(ov).reshape(-1)[0])

    # ---- stand-in mosek seam ----------------------------------------------------------------------
    def mosek_optimize(self, task):
        import mosek
        w = self.world
        self.ncall += 1
        cap = seam.read_mosek(task)
        cap.callno = self.ncall
        cap.kwargs = {}
        if w.want_raw:
            cap.raw_digest = None  # the literal call log is dumped by the world instead
        w.on_capture(cap)
        ans = Answer()
        cap.answer = ans
        sc = self._script_for_call()
        mode = self.cfg["mode"]
        if sc is not None:
            w.fault_fired("F-solver-" + sc["action"] + ("-" + sc.get("status", "") if sc.get("status") else ""))
            ans.mode = "fault"
            if sc["action"] == "raise":
                ans.status = "raised"
                raise mosek.Error("injected optimizer failure (call %d)" % self.ncall)
            if sc["action"] == "status":
                status = sc["status"]
                prosta = {"infeasible": mosek.prosta.prim_infeas, "unbounded": mosek.prosta.dual_infeas,
                          "infeasible_inaccurate": mosek.prosta.prim_infeas,
                          "unbounded_inaccurate": mosek.prosta.dual_infeas,
                          "prim_and_dual_infeas": mosek.prosta.prim_and_dual_infeas,
                          "ill_posed": mosek.prosta.ill_posed,
                          "optimal_inaccurate": mosek.prosta.unknown, "user_limit": mosek.prosta.unknown,
                          "unknown": mosek.prosta.unknown}[status]
                if sc.get("values") == "perturbed":
                    self._mosek_base_answer(task, cap, ans, mode)
                    rng = self._rng()
                    if task.sol is not None:
                        task.sol["xx"] = task.sol["xx"] + 1e-5 * rng.standard_normal(task.sol["xx"].shape)
                    task.prosta_value = prosta
                    ans.status = status
                    self._collect_mosek_answer(task, cap, ans)
                    return
                if prosta in (mosek.prosta.unknown, mosek.prosta.ill_posed):
                    # undetermined status without values: the solution is undefined
                    task.sol = None
                    task.prosta_value = prosta
                    ans.status = status
                    return
                # certificate-like content: numbers are present but are not a solution
                rng = self._rng()
                xx = 1.0 + np.abs(rng.standard_normal(task.nvar))
                task.sol = {"xx": xx,
                            "barx": [self._psd_tag(rng, d) for d in task.bardims],
                            "y": rng.standard_normal(task.ncon),
                            "bars": [-self._psd_tag(rng, d) for d in task.bardims]}
                task.prosta_value = prosta
                ans.status = status
                ans.certificate = True
                return
            raise HarnessError("unknown script action %r" % (sc,))
        self._mosek_base_answer(task, cap, ans, mode)

    def _mosek_base_answer(self, task, cap, ans, mode):
        import mosek
        if mode == "real":
            ans.mode = "real"
            mosek_real_solve(task, self.world)
            ans.status = {mosek.prosta.prim_and_dual_feas: "optimal", mosek.prosta.prim_infeas: "infeasible",
                          mosek.prosta.dual_infeas: "unbounded"}.get(task.prosta_value, "unknown")
            self._collect_mosek_answer(task, cap, ans)
            return
        if mode != "tagged":
            raise HarnessError("unknown peer mode %r" % (mode,))
        ans.mode = "tagged"
        rng = self._rng()
        nG = task.bardims[0]
        Gt = self._psd_tag(rng, nG, rank=max(1, min(nG, 1 + nG // 2)))
        if self.cfg.get("indef") and nG >= 2:
            v = rng.standard_normal(nG)
            v /= np.linalg.norm(v)
            Gt = Gt - (np.min(np.linalg.eigvalsh(Gt)) + 1e-3) * np.outer(v, v)
        Gt = (Gt + Gt.T) / 2
        xx = rng.standard_normal(task.nvar) + 0.01 * np.arange(task.nvar)
        for j in range(task.nvar):
            if task.vb[j][0] == "fx":
                xx[j] = task.vb[j][1]
        barx = [Gt] + [self._psd_tag(rng, d) for d in task.bardims[1:]]
        sgn = 1.0 if task.sense == "maximize" else -1.0
        y = np.zeros(task.ncon)
        for i in range(task.ncon):
            bk = task.cb[i][0]
            if bk == "up":
                y[i] = sgn * (abs(rng.standard_normal()) + 0.1)
            elif bk == "lo":
                y[i] = -sgn * (abs(rng.standard_normal()) + 0.1)
            else:
                y[i] = rng.standard_normal()
        bars = [-sgn * self._psd_tag(rng, d) for d in task.bardims]
        task.sol = {"xx": xx, "barx": barx, "y": y, "bars": bars}
        task.prosta_value = mosek.prosta.prim_and_dual_feas
        ans.status = "optimal"
        self._collect_mosek_answer(task, cap, ans)

    @staticmethod
    def _collect_mosek_answer(task, cap, ans):
        sol = task.sol
        if sol is None:
            return
        ans.G = np.array(sol["barx"][0], dtype=float)
        ans.F = np.array(sol["xx"], dtype=float)
        ans.M = [np.array(sol["barx"][l["bar"]], dtype=float) for l in cap.lmis]
        ans.lmi_dual = [-np.array(sol["bars"][l["bar"]], dtype=float) for l in cap.lmis]
        ans.row_dual = [float(sol["y"][r["pos"]]) for r in cap.rows]
        ans.gram_dual = -np.array(sol["bars"][0], dtype=float)
        for l in cap.lmis:
            for (pos, key) in l["links"]:
                # rows are sent as "expression - entry = 0": the multiplier of "entry - expression" is -y
                ans.link_dual[(id(l), pos)] = -float(sol["y"][pos])
        ov = 0.0
        for j, cj in task.c.items():
            ov += cj * sol["xx"][j]
        if 0 in task.barC:
            ov += float(np.sum(task.sym_dense(task.barC[0], task.bardims[0]) * sol["barx"][0]))
        ans.obj = float(ov)


# --------------------------------------------------------------------------------------------------
# REAL mode of the stand-in: solve the task as a cvxpy problem of its own, convert to MOSEK's conventions,
# self-check the MOSEK-form KKT system.
# --------------------------------------------------------------------------------------------------
def _build_task_problem(task, homogeneous=False):
    import cvxpy as cp
    nvar, ncon = task.nvar, task.ncon
    dims = list(task.bardims)
    x = cp.Variable(nvar)
    Xs = [cp.Variable((d, d), PSD=True) for d in dims]
    A = np.zeros((ncon, nvar))
    for (i, j), v in task.A.items():
        A[i, j] = v
    B = [np.zeros((ncon, d * d)) for d in dims]
    for (i, j), lst in task.barA.items():
        B[j][i, :] += task.sym_dense(lst, dims[j]).reshape(-1)
    lhs = A @ x if nvar else 0
    for j, d in enumerate(dims):
        if np.any(B[j]):
            lhs = lhs + B[j] @ cp.vec(Xs[j], order="F")
    cons = []
    groups = {}
    fx_idx = [j for j in range(nvar) if task.vb[j][0] == "fx"]
    if fx_idx:
        vals = np.array([0.0 if homogeneous else task.vb[j][1] for j in fx_idx])
        cons.append(x[fx_idx] == vals)
    for j in range(nvar):
        if task.vb[j][0] not in ("fx", "fr"):
            raise HarnessError("stand-in: variable bound key %r not supported" % (task.vb[j][0],))
    for key in ("up", "fx", "lo"):
        idx = [i for i in range(ncon) if task.cb[i][0] == key]
        if not idx:
            continue
        if key == "up":
            b = np.array([0.0 if homogeneous else task.cb[i][2] for i in idx])
            c = lhs[idx] <= b
        elif key == "fx":
            b = np.array([0.0 if homogeneous else task.cb[i][1] for i in idx])
            c = lhs[idx] == b
        else:
            b = np.array([0.0 if homogeneous else task.cb[i][1] for i in idx])
            c = lhs[idx] >= b
        groups[key] = (idx, c)
        cons.append(c)
    for i in range(ncon):
        if task.cb[i][0] not in ("up", "fx", "lo", "fr"):
            raise HarnessError("stand-in: constraint bound key %r not supported" % (task.cb[i][0],))
    cvec = np.zeros(nvar)
    for j, v in task.c.items():
        cvec[j] = v
    obj = cvec @ x if nvar else 0
    Cs = []
    for j, d in enumerate(dims):
        C = task.sym_dense(task.barC.get(j, []), d)
        Cs.append(C)
        if np.any(C):
            obj = obj + cp.sum(cp.multiply(C, Xs[j]))
    return x, Xs, cons, groups, obj, A, B, cvec, Cs


def mosek_real_solve(task, world):
    import cvxpy as cp
    import mosek
    x, Xs, cons, groups, obj, A, B, cvec, Cs = _build_task_problem(task)
    maximize = task.sense == "maximize"
    prob = cp.Problem(cp.Maximize(obj) if maximize else cp.Minimize(obj), cons)
    try:
        _ORIG_CVXPY_SOLVE(prob, solver="CLARABEL")
    except cp.SolverError:
        world.note("spontaneous_solver_error")
        if world.cur is not None:
            world.cur.spont_flag = True
        raise mosek.Error("stand-in: the optimizer failed (spontaneous)")
    st = prob.status
    dims = list(task.bardims)
    if st == "optimal_inaccurate" and world.cur is not None:
        # the real solver behind the stand-in says its answer is inaccurate: a spontaneous peer fault (no verdict on
        # anything that depends on accuracy), exactly as on the cvxpy transport where PEPit sees that status itself
        world.cur.spont_flag = True
        world.note("standin_real_solver_reported_inaccurate")
    if st in ("optimal", "optimal_inaccurate"):
        sgn = 1.0 if maximize else -1.0
        y = np.zeros(task.ncon)
        for key, (idx, c) in groups.items():
            d = np.asarray(c.dual_value, dtype=float).reshape(-1)
            if key == "up":
                y[idx] = sgn * d
            elif key == "lo":
                y[idx] = -sgn * d
            else:
                y[idx] = sgn * d
        S = []
        for j, dj in enumerate(dims):
            S.append(Cs[j] - (y @ B[j]).reshape(dj, dj))
        xx = np.array(x.value, dtype=float)
        barx = [np.array(X.value, dtype=float) for X in Xs]
        # ---- MOSEK-form KKT self check (harness error if the stand-in's own conventions are broken)
        scale = 1.0 + float(np.abs(y).sum()) + sum(float(np.abs(X).sum()) for X in barx)
        tol = 2e-5 * scale if st == "optimal" else 1e-2 * scale
        r = cvec - A.T @ y
        for j in range(task.nvar):
            if task.vb[j][0] == "fr" and abs(r[j]) > tol:
                raise HarnessError("stand-in KKT self-check: dual feasibility of variable %d: %g" % (j, r[j]))
        for j, Sj in enumerate(S):
            ev = np.linalg.eigvalsh((Sj + Sj.T) / 2)
            if (maximize and ev.max() > tol) or ((not maximize) and ev.min() < -tol):
                raise HarnessError("stand-in KKT self-check: sign of S_%d: %r" % (j, ev))
            comp = abs(float(np.sum(Sj * barx[j])))
            if comp > 10 * tol:
                # an inaccurate answer of the real solver (badly scaled / nearly unbounded model) is a spontaneous
                # peer fault, not a convention error: conventions are sign errors and show as O(1) relative
                rel = comp / (1e-12 + float(np.linalg.norm(Sj)) * float(np.linalg.norm(barx[j])))
                if rel > 1e-3 and st == "optimal":
                    raise HarnessError("stand-in KKT self-check: complementarity of bar variable %d (%g, rel %g)"
                                       % (j, comp, rel))
                world.note("standin_inaccurate_complementarity")
        for i in range(task.ncon):
            bk = task.cb[i][0]
            if bk == "up" and sgn * y[i] < -tol:
                raise HarnessError("stand-in KKT self-check: sign of y[%d]" % i)
        task.sol = {"xx": xx, "barx": barx, "y": y, "bars": S}
        task.prosta_value = mosek.prosta.prim_and_dual_feas
        return
    if st in ("unbounded", "unbounded_inaccurate"):
        # primal ray: homogeneous system with objective normalised to +-1
        xh, Xh, consh, _, objh, _, _, _, _ = _build_task_problem(task, homogeneous=True)
        target = 1.0 if maximize else -1.0
        ray = cp.Problem(cp.Minimize(cp.sum_squares(xh) + sum(cp.trace(X) for X in Xh)), consh + [objh == target])
        try:
            _ORIG_CVXPY_SOLVE(ray, solver="CLARABEL")
            ok = ray.status in ("optimal", "optimal_inaccurate")
        except cp.SolverError:
            ok = False
        if ok:
            xx = np.array(xh.value, dtype=float)
            barx = [np.array(X.value, dtype=float) for X in Xh]
        else:
            xx = np.ones(task.nvar)
            barx = [np.eye(d) for d in dims]
        task.sol = {"xx": xx, "barx": barx, "y": np.zeros(task.ncon), "bars": [np.zeros((d, d)) for d in dims]}
        task.prosta_value = mosek.prosta.dual_infeas
        return
    if st in ("infeasible", "infeasible_inaccurate"):
        task.sol = {"xx": np.zeros(task.nvar), "barx": [np.zeros((d, d)) for d in dims],
                    "y": np.ones(task.ncon), "bars": [np.zeros((d, d)) for d in dims]}
        task.prosta_value = mosek.prosta.prim_infeas
        return
    task.sol = None
    task.prosta_value = mosek.prosta.unknown
