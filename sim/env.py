"""Bootstrap: import the scientific stack, then PEPit from the repository's working tree."""
import importlib
import os
import sys
import warnings

VERIF = os.path.dirname(os.path.dirname(os.path.abspath(__file__)))
REPO = os.environ.get("VERIF_REPO", "/repo")
FAKE_MOSEK_DIR = os.path.join(VERIF, "sim", "fake_mosek")

_booted = False


def bootstrap():
    """Import numpy, pandas, cvxpy (before the stand-in mosek can be seen), then PEPit from REPO."""
    global _booted
    if _booted:
        return
    sys.dont_write_bytecode = True
    warnings.simplefilter("ignore")
    if VERIF not in sys.path:
        sys.path.insert(0, VERIF)
    import numpy  # noqa
    import pandas  # noqa
    import cvxpy  # noqa  (must happen before the stand-in is on the path)
    import clarabel  # noqa
    import scs  # noqa
    # PEPit from the working tree, never from site-packages
    for p in list(sys.path):
        if p.rstrip("/") == REPO.rstrip("/"):
            sys.path.remove(p)
    sys.path.insert(0, REPO)
    for name in list(sys.modules):
        if name == "PEPit" or name.startswith("PEPit."):
            del sys.modules[name]
    import PEPit  # noqa
    got = os.path.realpath(os.path.dirname(os.path.dirname(PEPit.__file__)))
    if got != os.path.realpath(REPO):
        raise RuntimeError("PEPit imported from %s, expected %s" % (got, REPO))
    import PEPit.functions  # noqa
    import PEPit.operators  # noqa
    import PEPit.primitive_steps  # noqa
    _booted = True


def set_mosek_present(present):
    """Back-end discovery seam: make `importlib.util.find_spec('mosek')` succeed or fail."""
    have = FAKE_MOSEK_DIR in sys.path
    if present and not have:
        sys.path.append(FAKE_MOSEK_DIR)
    if not present and have:
        sys.path.remove(FAKE_MOSEK_DIR)
    if not present:
        sys.modules.pop("mosek", None)
    importlib.invalidate_caches()
