"""Oracle library (DESIGN section 5).  Every oracle appends to world.viol via world.violation()."""
import numpy as np

from sim import seam
from sim.seam import K, sig_close, sig_dist, sig_neg

EPS_EXACT = 1e-9
EPS_REAL = 1e-4


# --------------------------------------------------------------------------------------------------
# helpers
# --------------------------------------------------------------------------------------------------
def den_sig(world, den):
    """Signature of an expression denotation (harness ledger) using the leaves' seam indices."""
    const = 0.0
    fpart, gpart = {}, {}
    for key, w in den.items():
        if key[0] == "1":
            const += w
        elif key[0] == "F":
            i = world.leaf_obj[key[1]].counter
            fpart[i] = fpart.get(i, 0.0) + w
        else:
            i, j = world.leaf_obj[key[1]].counter, world.leaf_obj[key[2]].counter
            gpart[(i, j)] = gpart.get((i, j), 0.0) + w
    return seam.terms_sig(const, fpart, gpart)


def den_scale(den):
    """Largest non-constant coefficient of a denotation, capped at 1: the scale at which a row of tiny coefficients
    (eps * ||x||^2 <= eps) has to be compared so that losing its whole variable part is not lost in the tolerance."""
    ws = [abs(w) for key, w in den.items() if key[0] != "1" and w != 0]
    return min(1.0, max(ws)) if ws else 1.0


def expression_scale(expression):
    const, fpart, gpart = seam.expression_terms(expression)
    ws = [abs(w) for w in list(fpart.values()) + list(gpart.values()) if w != 0]
    return min(1.0, max(ws)) if ws else 1.0


def unit_F_sig(t):
    return (0.0,) + tuple(float(seam._FP[k][t]) for k in range(K))


def sig_sub(a, b):
    return tuple(x - y for x, y in zip(a, b))


def sig_add(a, b):
    return tuple(x + y for x, y in zip(a, b))


def sig_scale(a, w):
    return tuple(w * x for x in a)


def psd_pairs_from_obj(M):
    d = M.shape[0]
    pairs = {}
    for i in range(d):
        for j in range(i, d):
            if i == j:
                pairs[(i, j)] = [seam.expression_sig(M[i, j])]
            else:
                pairs[(i, j)] = sorted([seam.expression_sig(M[i, j]), seam.expression_sig(M[j, i])])
    return pairs


def psd_pairs_from_den(world, dens):
    d = len(dens)
    pairs = {}
    for i in range(d):
        for j in range(i, d):
            if i == j:
                pairs[(i, j)] = [den_sig(world, dens[i][j])]
            else:
                pairs[(i, j)] = sorted([den_sig(world, dens[i][j]), den_sig(world, dens[j][i])])
    return pairs


def pairs_close(a, b, tol=EPS_EXACT):
    """Two LMIs are the same constraint iff, for every unordered position {i, j}, the *sets* of functionals the
    matrix entry is tied to are equal (an entry tied twice to the same functional is tied once)."""
    if set(a) != set(b):
        return False

    def dedupe(sigs):
        out = []
        for x in sigs:
            if not any(sig_close(x, y, tol) for y in out):
                out.append(x)
        return out
    for k in a:
        sa, sb = dedupe(a[k]), dedupe(b[k])
        if len(sa) != len(sb):
            return False
        for x in sa:
            if not any(sig_close(x, y, tol) for y in sb):
                return False
    return True


def match_sigs(expected, delivered, tol=EPS_EXACT, scales=None):
    """Greedy bipartite matching of signatures.  Returns (pairs e->d, unmatched e, unmatched d).
    `scales[e]` (<= 1) is the coefficient scale of expected row e: both signatures are divided by it first."""
    order = sorted(range(len(delivered)), key=lambda i: delivered[i][1])
    keys = [delivered[i][1] for i in order]
    used = [False] * len(delivered)
    import bisect
    pairs, miss = {}, []
    for ei, es in enumerate(expected):
        s = 1.0 + max(abs(x) for x in es)
        lo = bisect.bisect_left(keys, es[1] - 10 * tol * s - 1e-12)
        hit = None
        p = lo
        while p < len(keys) and keys[p] <= es[1] + 10 * tol * s + 1e-12:
            di = order[p]
            if not used[di] and sig_close(es, delivered[di], tol):
                c = scales[ei] if scales is not None else 1.0
                if c < 1.0 and not sig_close(tuple(x / c for x in es), tuple(x / c for x in delivered[di]), tol):
                    p += 1
                    continue
                hit = di
                break
            p += 1
        if hit is None:
            miss.append(ei)
        else:
            used[hit] = True
            pairs[ei] = hit
    extra = [i for i in range(len(delivered)) if not used[i]]
    return pairs, miss, extra


def project_psd(G):
    S = (G + G.T) / 2
    w, V = np.linalg.eigh(S)
    return (V * np.maximum(w, 0)) @ V.T


# --------------------------------------------------------------------------------------------------
# solve context: expected items vs delivered rows
# --------------------------------------------------------------------------------------------------
class Ctx(object):
    pass


def build_context(world, rec):
    if getattr(rec, "ctx", None) is not None:
        return rec.ctx
    ctx = Ctx()
    rec.ctx = ctx
    ctx.ok = False
    if not rec.caps:
        return ctx
    cap = rec.caps[0]
    ctx.cap1 = cap
    ctx.capL = rec.caps[-1]
    if cap.unreadable or cap.obj_sig is None:
        return ctx
    ep = rec.ledger_snapshot
    objs = world.allobj
    items = []

    def add_cons(obj, source, label, den=None):
        if den is not None:
            sig = den_sig(world, den["expr"])
            sense = den["sense"]
            scale = den_scale(den["expr"])
        else:
            sig = seam.expression_sig(obj.expression)
            sense = "eq" if obj.equality_or_inequality == "equality" else "le"
            scale = expression_scale(obj.expression)
        items.append({"kind": "cons", "obj": obj, "source": source, "label": label, "sig": sig, "sense": sense,
                      "scale": scale})

    def add_psd(obj, source, label, dens=None):
        pairs = psd_pairs_from_den(world, dens) if dens is not None else psd_pairs_from_obj(obj)
        items.append({"kind": "psd", "obj": obj, "source": source, "label": label, "pairs": pairs,
                      "dim": int(obj.shape[0])})

    for name in ep["pep_cons"]:
        add_cons(objs[name], "user:pep", name, world.den.get(name))
    for f, names in sorted(ep["func_cons"].items()):
        for name in names:
            add_cons(objs[name], "user:func", name, world.den.get(name))
    for Bn, names in sorted(ep["part_cons"].items()):
        for name in names:
            add_cons(objs[name], "user:partition", name, world.den.get(name))
    for name in ep["pep_psd"]:
        add_psd(objs[name], "user:pep-psd", name, world.den.get(name))
    for f, names in sorted(ep["func_psd"].items()):
        for name in names:
            add_psd(objs[name], "user:func-psd", name, world.den.get(name))
    nmetric_objs = 0
    for r in rec.created:
        if r["origin"] == "class":
            if r["kind"] == "cons":
                add_cons(r["obj"], "class", "class#%d" % len(items))
            else:
                add_psd(r["obj"], "class-psd", "classpsd#%d" % len(items))
        elif r["origin"] == "partition" and r["kind"] == "cons":
            add_cons(r["obj"], "partition", "part#%d" % len(items))
        elif r["origin"] == "solve" and r["kind"] == "cons":
            add_cons(r["obj"], "metric", "metric#%d" % nmetric_objs)
            nmetric_objs += 1
    ctx.items = items
    # objective column
    tcol = None
    if abs(cap.obj_sig[0]) < 1e-12:
        for t in range(cap.nF if cap.transport == "cvxpy" else getattr(cap, "nvar", cap.nF)):
            if sig_close(cap.obj_sig, unit_F_sig(t), 1e-12):
                tcol = t
                break
    ctx.tcol = tcol
    ctx.metric_sigs = [den_sig(world, world.den[m]) for m in ep["metrics"]]
    # scalar matching
    exp = [it for it in items if it["kind"] == "cons"]
    dsig = [r["sig"] for r in cap.rows]
    pairs, miss, extra = match_sigs([it["sig"] for it in exp], dsig, scales=[it["scale"] for it in exp])
    for ei, di in pairs.items():
        exp[ei]["row"] = di
    ctx.missing = [exp[i] for i in miss]
    ctx.extra_rows = extra
    ctx.exp_cons = exp
    # lmi matching
    expl = [it for it in items if it["kind"] == "psd"]
    usedl = [False] * len(cap.lmis)
    ctx.missing_lmi = []
    for it in expl:
        hit = None
        for li, l in enumerate(cap.lmis):
            if not usedl[li] and l["dim"] == it["dim"] and pairs_close(it["pairs"], l["pairs"]):
                hit = li
                break
        if hit is None:
            ctx.missing_lmi.append(it)
        else:
            usedl[hit] = True
            it["lmi"] = hit
    ctx.extra_lmis = [i for i in range(len(cap.lmis)) if not usedl[i]]
    ctx.exp_psd = expl
    ctx.ok = True
    return ctx


def after_solve(world, rec):
    """Run the in-leg oracles enabled for this leg after a solve op."""
    names = world.oracles
    ok = rec.exc is None and rec.result is not None
    judged = True
    if rec.op.get("nojudge"):
        judged = False
    if not judged:
        return
    if "delivery" in names and rec.caps:
        check_delivery(world, rec)
    if not ok and "attr" in names and len(rec.caps) >= 2 and (rec.op.get("cfg") or {}).get("heuristic") \
            and getattr(rec.caps[0].answer, "status", None) == "optimal":
        # the first call succeeded and a later call of the dimension reduction failed: the multipliers and the
        # residual exposed at that moment must still be one certificate, the one of problem 1 of *this* solve
        check_attr_dual(world, rec)
        world.reach["phase_one_certificate_after_second_phase_failure"] += 1
    if ok and not getattr(rec, "spontaneous", False):
        if "attr" in names:
            check_attr_dual(world, rec)
        if "attr_primal" in names:
            check_attr_primal(world, rec)
        if "cert" in names:
            check_cert(world, rec)
        if "primal" in names:
            check_primal(world, rec)
        if "handles" in names:
            check_handles(world, rec)
        if "heuristic" in names:
            check_heuristic_exchange(world, rec)


# --------------------------------------------------------------------------------------------------
# O-LEDGER-DELIVERY
# --------------------------------------------------------------------------------------------------
def classify_extra(world, rec, ctx, sig, sense):
    # duplicate of something expected?
    for it in ctx.exp_cons:
        if sig_close(it["sig"], sig):
            return "duplicate:" + it["source"]
    # stale object from an earlier solve / earlier model?
    for r in world.created_log:
        if r["kind"] != "cons" or r["solve"] == rec.index:
            continue
        try:
            s = seam.expression_sig(r["obj"].expression)
        except Exception:
            continue
        if sig_close(s, sig):
            return "stale:" + r["origin"]
    return "unknown"


def check_delivery(world, rec):
    ctx = build_context(world, rec)
    cap = rec.caps[0]
    if cap.unreadable:
        world.violation("O-DELIVERY", "unreadable-seam", {"what": cap.unreadable[:3]})
        return
    if not ctx.ok:
        return
    ep = rec.ledger_snapshot
    # objective and metrics
    if cap.sense != "max":
        world.violation("O-DELIVERY", "objective-sense", {"sense": cap.sense})
    if cap.obj_extra:
        world.violation("O-DELIVERY", "objective-touches-lmi-variable", {})
    nmet = len(ctx.metric_sigs)
    metric_items = [it for it in ctx.exp_cons if it["source"] == "metric"]
    if ctx.tcol is None:
        ok_direct = nmet == 1 and sig_close(cap.obj_sig, ctx.metric_sigs[0])
        if not ok_direct:
            world.violation("O-DELIVERY", "objective-not-epigraph-variable", {"obj": cap.obj_sig})
    else:
        u = unit_F_sig(ctx.tcol)
        want = [sig_sub(u, m) for m in ctx.metric_sigs]
        have = [r["sig"] for r in cap.rows if r["sense"] == "le"]
        pairs, miss, _ = match_sigs(want, have)
        if miss:
            world.violation("O-DELIVERY", "metric-row-missing", {"n": len(miss), "metrics": nmet})
        # any other row touching the objective column?  (rows t - m <= 0 beyond the declared metrics)
        if len(metric_items) != nmet:
            world.violation("O-DELIVERY", "metric-row-count", {"rows": len(metric_items), "metrics": nmet})
        # the objective variable must be fresh: no declared or generated item other than the metric rows involves it
        objleaf = getattr(rec.pep, "objective", None)
        if objleaf is not None:
            for it in ctx.exp_cons:
                if it["source"] == "metric":
                    continue
                e = it["obj"].expression
                if e is objleaf or any(k is objleaf for k in e.decomposition_dict):
                    world.violation("O-DELIVERY", "objective-variable-used-by-another-row:" + it["source"],
                                    {"label": it["label"]})
                    break
    for it in ctx.missing:
        if it["source"] == "metric":
            continue
        # present with another sense?
        world.violation("O-DELIVERY", "missing:" + it["source"], {"label": it["label"]})
    for it in ctx.exp_cons:
        if "row" in it and cap.rows[it["row"]]["sense"] != it["sense"]:
            world.violation("O-DELIVERY", "sense:" + it["source"],
                            {"label": it["label"], "declared": it["sense"], "sent": cap.rows[it["row"]]["sense"]})
    extras = {}
    for di in ctx.extra_rows:
        r = cap.rows[di]
        kind = classify_extra(world, rec, ctx, r["sig"], r["sense"])
        extras[kind] = extras.get(kind, 0) + 1
    for kind, n in sorted(extras.items()):
        world.violation("O-DELIVERY", "extra:" + kind, {"count": n, "solve": rec.index})
    for it in ctx.missing_lmi:
        world.violation("O-DELIVERY", "missing-lmi:" + it["source"], {"label": it["label"]})
    if ctx.extra_lmis:
        kinds = {}
        for li in ctx.extra_lmis:
            l = cap.lmis[li]
            kind = "unknown"
            for it in ctx.exp_psd:
                if it["dim"] == l["dim"] and pairs_close(it["pairs"], l["pairs"]):
                    kind = "duplicate:" + it["source"]
                    break
            if kind == "unknown":
                for r in world.created_log:
                    if r["kind"] == "psd" and r["solve"] != rec.index and r["obj"].shape[0] == l["dim"]:
                        try:
                            if pairs_close(psd_pairs_from_obj(r["obj"]), l["pairs"]):
                                kind = "stale:" + r["origin"]
                                break
                        except Exception:
                            pass
            kinds[kind] = kinds.get(kind, 0) + 1
        for kind, n in sorted(kinds.items()):
            world.violation("O-DELIVERY", "extra-lmi:" + kind, {"count": n, "solve": rec.index})
    world.reach["delivery_checked"] += 1


# --------------------------------------------------------------------------------------------------
# O-ATTR (dual half): exposed multipliers are the numbers the peer returned for the carrying rows
# --------------------------------------------------------------------------------------------------
def _acc_dual(obj):
    try:
        return obj.eval_dual()
    except Exception as e:  # noqa
        return e


def check_attr_dual(world, rec):
    ctx = build_context(world, rec)
    if not ctx.ok:
        return
    cap = rec.caps[0]
    ans = cap.answer
    if ans.row_dual is None or ans.gram_dual is None:
        return
    # group expected items by equal signature; the peer's numbers for *all* delivered rows with that
    # signature form the multiset the exposed multipliers must be drawn from (injectively)
    # an object registered with several owners reaches the solver several times but has a single multiplier
    # slot: which of its rows' multipliers it shows is not determined by the statement; it is judged through the
    # identity (O-CERT) only
    nreg = {}
    for it in ctx.exp_cons:
        nreg[id(it["obj"])] = nreg.get(id(it["obj"]), 0) + 1
    groups = []
    for it in ctx.exp_cons:
        if "row" not in it or nreg[id(it["obj"])] > 1:
            continue
        g = None
        for grp in groups:
            if sig_close(grp["sig"], it["sig"]):
                g = grp
                break
        if g is None:
            g = {"sig": it["sig"], "items": [], "rows": [k for k, r in enumerate(cap.rows)
                                                         if sig_close(r["sig"], it["sig"])]}
            groups.append(g)
        g["items"].append(it)
    worst = 0.0
    multi = {}
    for it in ctx.exp_cons:
        if "row" in it and nreg[id(it["obj"])] > 1:
            multi.setdefault(id(it["obj"]), []).append(it)
    for oid, its in multi.items():
        d = _acc_dual(its[0]["obj"])
        if isinstance(d, Exception):
            world.violation("O-ATTR", "dual-accessor-raises:" + its[0]["source"], {"label": its[0]["label"]})
            continue
        cands = [float(ans.row_dual[k]) for k, r in enumerate(cap.rows)
                 if any(sig_close(r["sig"], it["sig"]) for it in its)]
        if cands and not any(abs(float(d) - c) <= EPS_EXACT * (1 + abs(c)) for c in cands):
            world.violation("O-ATTR", "object-registered-twice-exposes-a-number-that-is-the-multiplier-of-none-of-its-rows",
                            {"label": its[0]["label"], "exposed": float(d), "peer": cands[:4]})
    for g in groups:
        acc = []
        bad = None
        for it in g["items"]:
            d = _acc_dual(it["obj"])
            if isinstance(d, Exception):
                bad = (it, d)
                break
            acc.append(float(d))
        if bad is not None:
            world.violation("O-ATTR", "dual-accessor-raises:" + bad[0]["source"],
                            {"label": bad[0]["label"], "exc": type(bad[1]).__name__})
            continue
        want = [float(ans.row_dual[k]) for k in g["rows"]]
        s = 1.0 + max(abs(x) for x in want + acc)
        pool = list(want)
        err = 0.0
        for a in sorted(acc):
            j = min(range(len(pool)), key=lambda t: abs(pool[t] - a)) if pool else None
            if j is None:
                err = float("inf")
                break
            err = max(err, abs(pool[j] - a) / s)
            pool.pop(j)
        worst = max(worst, err if err != float("inf") else 1e300)
        if err > EPS_EXACT:
            world.violation("O-ATTR", "scalar-dual-mismatch:" + g["items"][0]["source"],
                            {"label": g["items"][0]["label"], "exposed": sorted(acc)[:3], "peer": sorted(want)[:3],
                             "transport": cap.transport})
    for it in ctx.exp_psd:
        if "lmi" not in it:
            continue
        d = _acc_dual(it["obj"])
        if isinstance(d, Exception):
            world.violation("O-ATTR", "dual-accessor-raises:" + it["source"], {"label": it["label"]})
            continue
        d = np.asarray(d, dtype=float)
        # candidates: every delivered LMI that carries the same matrix of functionals
        cands = [li for li, l in enumerate(cap.lmis)
                 if l["dim"] == it["dim"] and pairs_close(it["pairs"], l["pairs"])]
        errs = []
        for li in cands:
            want = ans.lmi_dual[li]
            if want is None or d.shape != want.shape:
                continue
            errs.append(float(np.max(np.abs(d - want))) / (1.0 + float(np.max(np.abs(want)))))
        if not errs:
            world.violation("O-ATTR", "lmi-dual-shape:" + it["source"], {"label": it["label"]})
            continue
        err = min(errs)
        worst = max(worst, err)
        if err > EPS_EXACT:
            world.violation("O-ATTR", "lmi-dual-mismatch:" + it["source"],
                            {"label": it["label"], "transport": cap.transport, "err": err})
    # multipliers of the entries of an LMI (when exposed): each is the number the peer returned for the link of an
    # entry carrying that expression; their symmetric part is the LMI multiplier
    for it in ctx.exp_psd:
        ent = getattr(it["obj"], "entries_dual_variable_value", None)
        if "lmi" not in it or ent is None:
            continue
        ent = np.asarray(ent, dtype=float)
        l = cap.lmis[it["lmi"]]
        d = it["dim"]
        if ent.shape != (d, d):
            world.violation("O-ATTR", "lmi-entries-dual-shape:" + it["source"], {"label": it["label"]})
            continue
        okent = True
        for i in range(d):
            for j in range(d):
                sig = seam.expression_sig(it["obj"][i, j])
                cands = [ans.link_dual.get((id(l), pos)) for (pos, key) in l["links"]
                         if key == (min(i, j), max(i, j)) and sig_close(l["link_sigs"][pos], sig)]
                cands = [c for c in cands if c is not None]
                if cands and not any(abs(ent[i, j] - c) <= EPS_EXACT * (1 + abs(c)) for c in cands):
                    okent = False
        if not okent:
            world.violation("O-ATTR", "lmi-entry-dual-mismatch:" + it["source"], {"label": it["label"],
                                                                                 "transport": cap.transport})
    R = getattr(rec.pep, "residual", None)
    if R is None:
        world.violation("O-ATTR", "residual-missing", {})
    else:
        R = np.asarray(R, dtype=float)
        if R.shape != ans.gram_dual.shape:
            world.violation("O-ATTR", "residual-shape", {})
        else:
            err = float(np.max(np.abs(R - ans.gram_dual))) / (1.0 + float(np.max(np.abs(ans.gram_dual))))
            worst = max(worst, err)
            if err > EPS_EXACT:
                world.violation("O-ATTR", "residual-mismatch", {"transport": cap.transport, "err": err})
    world.residual("O-ATTR", worst)
    world.reach["attr_dual_checked"] += 1


# --------------------------------------------------------------------------------------------------
# O-ATTR (primal half)
# --------------------------------------------------------------------------------------------------
def known_leaves(world, rec):
    """Leaf points / expressions the session can reach: from handles and from every created constraint."""
    from PEPit.expression import Expression
    pts, exs = {}, {}

    def scan_expr(e):
        if e.get_is_leaf():
            exs[id(e)] = e
            return
        for k in e.decomposition_dict:
            if isinstance(k, Expression):
                exs[id(k)] = k
            elif isinstance(k, tuple):
                pts[id(k[0])] = k[0]
                pts[id(k[1])] = k[1]

    for lab, obj in world.leaf_obj.items():
        if lab.startswith("p"):
            pts[id(obj)] = obj
        else:
            exs[id(obj)] = obj
    for r in world.created_log:
        if r["solve"] is not None and r["solve"] != rec.index and r["opi"] != rec.opi:
            pass
        if r["kind"] == "cons":
            scan_expr(r["obj"].expression)
        else:
            for row in r["obj"].matrix_of_expressions:
                for e in row:
                    scan_expr(e)
    obj = getattr(rec.pep, "objective", None)
    if obj is not None:
        exs[id(obj)] = obj
    return list(pts.values()), list(exs.values())


def check_attr_primal(world, rec):
    capL = rec.caps[-1]
    ans = capL.answer
    if ans.G is None or ans.F is None:
        return
    pts, exs = known_leaves(world, rec)
    nG = ans.G.shape[0]
    worst = 0.0
    # After a dimension reduction the objective variable of the last problem is only bracketed
    # (wc - tol <= objective <= metrics): the library gives the objective the value it stands for, the smallest
    # performance metric of the returned instance (K-28 repair); the peer's number for that column is not it.
    objective = getattr(rec.pep, "objective", None)
    reduced = bool((rec.op.get("cfg") or {}).get("heuristic")) and len(rec.caps) >= 2
    for e in exs:
        if e.counter is None or e.counter >= len(ans.F):
            continue
        try:
            v = e.eval()
        except Exception as ex:  # noqa
            world.violation("O-ATTR-PRIMAL", "leaf-expression-eval-raises", {"exc": type(ex).__name__,
                                                                            "counter": e.counter})
            continue
        want = float(ans.F[e.counter])
        if e is objective and reduced:
            try:
                want = min(float(world.allobj[m].eval()) for m in (rec.ledger_snapshot or {}).get("metrics", []))
            except Exception:
                continue
            Fv = getattr(rec.pep, "F_value", None)
            if Fv is not None and abs(float(np.asarray(Fv)[e.counter]) - want) > EPS_EXACT * (1.0 + abs(want)):
                world.violation("O-ATTR-PRIMAL", "F_value-of-the-objective-is-not-the-smallest-metric",
                                {"F_value": float(np.asarray(Fv)[e.counter]), "smallest_metric": want})
        err = abs(float(v) - want) / (1.0 + abs(want))
        worst = max(worst, err)
        if err > EPS_EXACT:
            world.violation("O-ATTR-PRIMAL", "leaf-expression-value", {"counter": e.counter, "got": float(v),
                                                                      "peer": want})
    Ghat = project_psd(ans.G)
    pts = [p for p in pts if p.counter is not None and p.counter < nG]
    vals = {}
    for p in pts:
        try:
            vals[p.counter] = np.asarray(p.eval(), dtype=float)
        except Exception as ex:  # noqa
            world.violation("O-ATTR-PRIMAL", "leaf-point-eval-raises", {"exc": type(ex).__name__})
            return
    idx = sorted(vals)
    if idx:
        V = np.array([vals[i] for i in idx])
        gram = V @ V.T
        want = Ghat[np.ix_(idx, idx)]
        err = float(np.max(np.abs(gram - want))) / (1.0 + float(np.max(np.abs(want))))
        worst = max(worst, err)
        if err > 1e-8:
            world.violation("O-ATTR-PRIMAL", "gram-of-points", {"err": err, "transport": capL.transport})
    # G_value / F_value attributes
    Gv = getattr(rec.pep, "G_value", None)
    if Gv is not None and np.asarray(Gv).shape == ans.G.shape:
        if float(np.max(np.abs(np.asarray(Gv) - ans.G))) > EPS_EXACT * (1 + float(np.max(np.abs(ans.G)))):
            world.violation("O-ATTR-PRIMAL", "G_value-attribute", {})
    world.residual("O-ATTR-PRIMAL", worst)
    world.reach["attr_primal_checked"] += 1


# --------------------------------------------------------------------------------------------------
# O-HANDLES: every handle evaluates to its denotation at the current leaf values  (exact)
# --------------------------------------------------------------------------------------------------
def eval_den_point(world, den):
    v = None
    for lab, w in den.items():
        lv = np.asarray(world.leaf_obj[lab].eval(), dtype=float)
        v = w * lv if v is None else v + w * lv
    return v


def eval_den_expr(world, den):
    v = 0.0
    for key, w in den.items():
        if key[0] == "1":
            v += w
        elif key[0] == "F":
            v += w * float(world.leaf_obj[key[1]].eval())
        else:
            a = np.asarray(world.leaf_obj[key[1]].eval(), dtype=float)
            b = np.asarray(world.leaf_obj[key[2]].eval(), dtype=float)
            v += w * float(np.dot(a, b))
    return v


def expected_value(world, name):
    kind = world.kind[name]
    den = world.den[name]
    if kind == "point":
        v = eval_den_point(world, den)
        return v
    if kind == "expr":
        return eval_den_expr(world, den)
    if kind == "cons":
        return eval_den_expr(world, den["expr"])
    if kind == "psd":
        return np.array([[eval_den_expr(world, d) for d in row] for row in den])
    return None


def compare_value(got, want):
    if want is None:
        return 0.0
    g = np.asarray(got, dtype=float)
    w = np.asarray(want, dtype=float)
    if g.shape != w.shape:
        if w.size == 0 and g.size > 0 or g.size == 0 and w.size > 0:
            # a null point evaluates to zeros of the Gram dimension
            return float(np.max(np.abs(g))) if g.size else float(np.max(np.abs(w)))
        return float("inf")
    if g.size == 0:
        return 0.0
    return float(np.max(np.abs(g - w))) / (1.0 + float(np.max(np.abs(w))))


def check_fresh(world, name, got):
    """Called at an `eval` op: the value must be the denotation at the *current* leaf values."""
    if world.epoch is None or world.epoch.get("last_ok") is None:
        return
    last = world.solves[-1] if world.solves else None
    if last is not None and (last.exc is not None or last.result is None):
        return   # right after a failed round: not judged
    try:
        want = expected_value(world, name)
    except Exception:
        return
    if want is None:
        if world.kind[name] == "point" and not world.den.get(name):
            # a point without any leaf (zero gradient of a stationary point, null_point, x - x): a zero vector of
            # the dimension of the *latest* instance, like every other point evaluated now
            dims = set()
            for lab, leaf in world.leaf_obj.items():
                if lab.startswith("p") and getattr(leaf, "_value", None) is not None:
                    dims.add(len(np.asarray(leaf._value).reshape(-1)))
            g = np.asarray(got, dtype=float).reshape(-1)
            if dims and (len(g) not in dims or np.any(g != 0)):
                world.violation("O-FRESH", "stale-value:zero-point",
                                {"handle": name, "length": int(len(g)), "instance_dimension": sorted(dims)})
        return
    err = compare_value(got, want)
    world.residual("O-FRESH", err if err != float("inf") else 1e300)
    if err > 1e-9:
        world.violation("O-FRESH", "stale-value:" + world.kind[name], {"handle": name, "err": err})


def check_handles(world, rec):
    worst = 0.0
    for name, kind in list(world.kind.items()):
        if kind not in ("point", "expr", "cons", "psd") or name not in world.h:
            continue
        obj = world.h[name]
        try:
            got = obj.eval()
        except Exception as ex:  # noqa
            # objects not connected to this model's solved leaves cannot be evaluated; but an object all of whose
            # leaves have a value must evaluate
            world.reach["handle_eval_raises"] += 1
            try:
                want = expected_value(world, name)
            except Exception:
                continue
            if want is not None and not (kind == "point" and np.asarray(want).size == 0):
                world.violation("O-HANDLES", "eval-raises-although-every-leaf-has-a-value:" + kind,
                                {"handle": name, "exc": type(ex).__name__, "msg": str(ex)[:120]})
            continue
        try:
            want = expected_value(world, name)
        except Exception:
            continue
        if kind == "point" and want is None:
            # a point without any leaf (the zero gradient of a stationary point, x - x): a zero vector of the
            # dimension of the instance, like every other evaluated point
            dims = set()
            for lab, leaf in world.leaf_obj.items():
                if lab.startswith("p") and getattr(leaf, "_value", None) is not None:
                    dims.add(len(np.asarray(leaf._value).reshape(-1)))
            g = np.asarray(got, dtype=float).reshape(-1)
            if dims and (len(g) not in dims or np.any(g != 0)):
                world.violation("O-HANDLES", "zero-point-evaluates-to-a-vector-of-another-dimension",
                                {"handle": name, "length": int(len(g)), "instance_dimension": sorted(dims)})
            continue
        err = compare_value(got, want)
        if err == float("inf"):
            world.violation("O-HANDLES", "shape:" + kind, {"handle": name})
            continue
        worst = max(worst, err)
        if err > 1e-9:
            world.violation("O-HANDLES", "value:" + kind, {"handle": name, "err": err})
    world.residual("O-HANDLES", worst)
    world.reach["handles_checked"] += 1


# --------------------------------------------------------------------------------------------------
# O-CERT
# --------------------------------------------------------------------------------------------------
def lmi_term(entry, comp):
    """Contribution of one LMI to the identity at component `comp` of the signatures: with the multipliers of
    the entries when the library exposes them (sum_ij mu_ij e_ij, entries as written), else <D, E>."""
    Md, l, ent, obj = entry
    if ent is not None and ent.shape == Md.shape:
        v = 0.0
        d = Md.shape[0]
        for i in range(d):
            for j in range(d):
                v += ent[i, j] * seam.expression_sig(obj[i, j])[comp]
        return v
    return lmi_inner(Md, l["pairs"], comp)


def lmi_inner(Mdual, pairs, comp):
    """<Mdual, L> where L's entries have signatures `pairs` (as written, both orientations summed)."""
    v = 0.0
    for (i, j), sigs in pairs.items():
        s = sum(x[comp] for x in sigs)
        v += Mdual[i, j] * s
    return v


def check_cert(world, rec):
    ctx = build_context(world, rec)
    if not ctx.ok:
        return
    cap = rec.caps[0]
    ans = cap.answer
    real = ans.mode == "real"
    mode = (rec.op.get("cfg") or {}).get("mode", "dual")
    # collect multipliers through the public accessors
    lam, rows = [], []
    for it in ctx.exp_cons:
        if "row" not in it:
            return   # delivery problem: reported by O-DELIVERY, identity undefined
        d = _acc_dual(it["obj"])
        if isinstance(d, Exception):
            world.violation("O-CERT", "dual-accessor-raises:" + it["source"], {"label": it["label"]})
            return
        lam.append(float(d))
        rows.append(cap.rows[it["row"]])
    if ctx.extra_rows or ctx.missing:
        return
    Ms = []
    for it in ctx.exp_psd:
        if "lmi" not in it:
            return
        d = _acc_dual(it["obj"])
        if isinstance(d, Exception):
            world.violation("O-CERT", "dual-accessor-raises:" + it["source"], {"label": it["label"]})
            return
        ent = getattr(it["obj"], "entries_dual_variable_value", None)
        Ms.append((np.asarray(d, dtype=float), cap.lmis[it["lmi"]],
                   None if ent is None else np.asarray(ent, dtype=float), it["obj"]))
    if ctx.extra_lmis or ctx.missing_lmi:
        return
    R = np.asarray(rec.pep.residual, dtype=float)
    nG = cap.nG
    scale = 1.0 + sum(abs(l) * (abs(r["sig"][0]) + max(abs(x) for x in r["sig"][1:])) for l, r in zip(lam, rows))
    scale += float(np.sum(np.abs(R)))
    for Md, l, ent, obj in Ms:
        scale += float(np.sum(np.abs(Md)))
    # constant of the identity:  0 - tau = sum lam_i c_i - sum <M_k, C_k>
    const = sum(l * r["sig"][0] for l, r in zip(lam, rows)) - sum(lmi_term(e_, 0) for e_ in Ms)
    tau_id = -const
    if mode == "dual" and rec.result is not None:
        err = abs(float(rec.result) - tau_id) / scale
        world.residual("O-CERT/const", err)
        if err > 1e-9:
            world.violation("O-CERT", "returned-dual-value-is-not-the-constant-of-the-identity",
                            {"returned": float(rec.result), "constant": tau_id, "transport": cap.transport})
    if not real:
        world.reach["cert_const_checked"] += 1
        return
    if ans.status != "optimal":
        world.note("real_solver_reported_inaccurate_solution")
        return
    # linear part at each probe
    rem = []
    for k in range(1, K + 1):
        Gk = seam.probe_G(k - 1, nG)
        v = cap.obj_sig[k] - (sum(l * r["sig"][k] for l, r in zip(lam, rows))
                              - float(np.sum(R * Gk))
                              - sum(lmi_term(e_, k) for e_ in Ms))
        rem.append(v)
    err = max(abs(x) for x in rem) / scale
    explained = False
    if err > EPS_REAL:
        # K-13 predicate: the remainder is exactly the part carried by the (unexposed) multipliers of the
        # implied symmetry e_ij = e_ji of LMIs whose entries are not symmetric as written
        corr = [0.0] * K
        any_asym = False
        for Md, l, ent, obj in Ms:
            for key, sigs in l["pairs"].items():
                if len(sigs) == 2 and not sig_close(sigs[0], sigs[1]):
                    any_asym = True
        if any_asym:
            explained = _explained_by_asymmetric_links(cap, ans, Ms, rem, scale)
    explained19 = False
    if err > EPS_REAL and not explained:
        # K-19 predicate: a Constraint object registered with several owners reaches the solver several times but
        # exposes one multiplier; the remainder is then exactly sum_obj (sum of its rows' multipliers at the seam
        # - n * exposed) * row
        nreg = {}
        for it in ctx.exp_cons:
            nreg.setdefault(id(it["obj"]), []).append(it)
        corr = [0.0] * K
        any_multi = False
        for oid, its in nreg.items():
            if len(its) < 2:
                continue
            any_multi = True
            exposed = float(_acc_dual(its[0]["obj"]))
            rowsk = [k for k, r in enumerate(cap.rows) if sig_close(r["sig"], its[0]["sig"])]
            true_total = sum(float(ans.row_dual[k]) for k in rowsk)
            for k in range(K):
                corr[k] += (true_total - len(its) * exposed) * its[0]["sig"][k + 1]
        if any_multi and max(abs(rem[k] - corr[k]) for k in range(K)) / scale <= EPS_REAL:
            explained19 = True
    world.residual("O-CERT/identity" + ("(K-13)" if explained else "(K-19)" if explained19 else ""),
                   err if not (explained or explained19) else 0.0)
    if err > EPS_REAL and explained19:
        world.violation("O-CERT", "identity-remainder-explained-by-the-single-multiplier-slot-of-a-constraint-registered-twice",
                        {"err": err, "transport": cap.transport})
    elif err > EPS_REAL:
        if explained:
            world.violation("O-CERT", "identity-remainder-explained-by-unexposed-symmetry-multipliers-of-asymmetric-lmi",
                            {"err": err, "transport": cap.transport})
        else:
            world.violation("O-CERT", "identity-remainder", {"err": err, "transport": cap.transport})
    # signs
    tol = EPS_REAL * scale
    for it, l in zip(ctx.exp_cons, lam):
        if it["sense"] == "le" and l < -tol:
            world.violation("O-CERT", "negative-inequality-multiplier:" + it["source"], {"value": l})
            break
    ev = np.linalg.eigvalsh((R + R.T) / 2)
    if ev.min() < -tol:
        world.violation("O-CERT", "residual-not-psd", {"min_eig": float(ev.min())})
    for Md, l, ent, obj in Ms:
        ev = np.linalg.eigvalsh((Md + Md.T) / 2)
        if ev.min() < -tol:
            world.violation("O-CERT", "lmi-multiplier-not-psd", {"min_eig": float(ev.min())})
            break
    # primal <= dual
    if ans.obj is not None:
        if ans.obj > tau_id + EPS_REAL * scale:
            world.violation("O-CERT", "primal-exceeds-dual", {"primal": ans.obj, "dual": tau_id})
    world.reach["cert_checked"] += 1


def _explained_by_asymmetric_links(cap, ans, Ms, rem, scale):
    """rem_k ?= s * sum_pairs (mu_a - mu_b)/2 * (e_a - e_b)_k  for s in {+1, -1}."""
    # we need the association link -> signature, recomputed from the capture (links and pairs are stored per LMI)
    total = [0.0] * K
    for Md, l, ent, obj in Ms:
        bykey = {}
        for (pos, key) in l["links"]:
            bykey.setdefault(key, []).append(pos)
        for key, poss in bykey.items():
            if len(poss) != 2:
                continue
            sigs = l.get("link_sigs", {})
            if not sigs:
                return False
            ea, eb = sigs[poss[0]], sigs[poss[1]]
            ma, mb = ans.link_dual.get((id(l), poss[0])), ans.link_dual.get((id(l), poss[1]))
            if ma is None or mb is None:
                return False
            for k in range(K):
                total[k] += 0.5 * (ma - mb) * (ea[k + 1] - eb[k + 1])
    for s in (1.0, -1.0):
        if max(abs(rem[k] - s * total[k]) for k in range(K)) / scale <= EPS_REAL:
            return True
    return False


# --------------------------------------------------------------------------------------------------
# O-PRIMAL (REAL): constraints hold at the exposed values; objective = min metric; primal <= dual
# --------------------------------------------------------------------------------------------------
def check_primal(world, rec):
    ctx = build_context(world, rec)
    if not ctx.ok:
        return
    capL = rec.caps[-1]
    ans = capL.answer
    if ans.mode != "real":
        return
    if any(c.answer.status != "optimal" for c in rec.caps):
        world.note("real_solver_reported_inaccurate_solution")   # nothing is promised beyond solver tolerance
        return
    for c_ in rec.caps:
        G_ = getattr(c_.answer, "G", None)
        if G_ is not None:
            ev_ = np.linalg.eigvalsh((np.asarray(G_) + np.asarray(G_).T) / 2)
            if ev_.min() < -1e-6 * (1.0 + abs(ev_.max())):
                # the solver's Gram matrix is not positive semidefinite to 1e-6: the library evaluates the instance
                # on its projection, which differs from the solver's answer by that much - that is the solver's
                # tolerance on this problem, whatever its status says
                world.note("real_solver_gram_not_psd_to_1e-6")
                return
    if getattr(ans, "solver", None) != "CLARABEL" and capL.transport == "cvxpy":
        # accuracy-dependent verdicts are taken on CLARABEL runs only (SCS's 1e-4 is relative to the data norms,
        # which the templates' large redundant bounds inflate); SCS runs are judged by the exact oracles
        world.note("accuracy_oracle_skipped_for_" + str(getattr(ans, "solver", None)))
        return
    ep = rec.ledger_snapshot
    scale = 1.0 + float(np.max(np.abs(ans.G))) + float(np.max(np.abs(ans.F)))
    tol = 5e-3 * scale if (getattr(ans, "solver", None) == "SCS") else EPS_REAL * 10 * scale
    worst = 0.0
    for it in ctx.exp_cons:
        try:
            v = float(it["obj"].eval())
        except Exception as ex:  # noqa
            world.violation("O-PRIMAL", "constraint-eval-raises:" + it["source"], {"exc": type(ex).__name__})
            return
        viol = abs(v) if it["sense"] == "eq" else max(v, 0.0)
        worst = max(worst, viol / scale)
        if viol > tol:
            world.violation("O-PRIMAL", "constraint-violated:" + it["source"], {"label": it["label"], "value": v})
            break
    for it in ctx.exp_psd:
        try:
            Mv = np.asarray(it["obj"].eval(), dtype=float)
        except Exception as ex:  # noqa
            world.violation("O-PRIMAL", "lmi-eval-raises:" + it["source"], {"exc": type(ex).__name__})
            return
        ev = np.linalg.eigvalsh((Mv + Mv.T) / 2)
        if ev.min() < -tol:
            world.violation("O-PRIMAL", "lmi-violated:" + it["source"], {"min_eig": float(ev.min())})
            break
    # objective value = smallest metric
    if True:
        mets = []
        for m in ep["metrics"]:
            try:
                mets.append(float(world.allobj[m].eval()))
            except Exception:
                mets = None
                break
        obj = getattr(rec.pep, "objective", None)
        if mets and obj is not None:
            ov = float(obj.eval())
            gap = abs(ov - min(mets))
            if gap > tol:
                cfg = rec.op.get("cfg") or {}
                tolred = cfg.get("tol", 1e-4)
                if len(rec.caps) >= 2 and cfg.get("heuristic") and ov <= min(mets) + tol and gap <= tolred + tol:
                    # K-28 predicate: after a dimension reduction the objective variable is only bracketed by
                    # wc - tol_dimension_reduction <= objective <= metrics, it is not pushed against the metrics
                    world.violation("O-PRIMAL", "objective-below-the-smallest-metric-within-the-dimension-reduction-tolerance",
                                    {"objective": ov, "min_metric": min(mets), "tol_dimension_reduction": tolred})
                else:
                    world.violation("O-PRIMAL", "objective-is-not-the-smallest-metric", {"objective": ov, "metrics": mets})
    # the primal value never exceeds the dual bound by more than solver tolerance
    mode = (rec.op.get("cfg") or {}).get("mode", "dual")
    a1 = rec.caps[0].answer
    if mode == "dual" and rec.result is not None and a1.obj is not None and a1.mode == "real":
        gap = a1.obj - float(rec.result)
        world.residual("O-PRIMAL/gap", max(0.0, gap) / (1.0 + abs(a1.obj)))
        if gap > tol:
            world.violation("O-PRIMAL", "primal-value-exceeds-dual-bound", {"primal": a1.obj, "dual": float(rec.result)})
    world.residual("O-PRIMAL", worst)
    world.reach["primal_checked"] += 1


# --------------------------------------------------------------------------------------------------
# heuristic exchange (C14): problem n >= 2 is problem 1 + one row, with another objective
# --------------------------------------------------------------------------------------------------
def check_heuristic_exchange(world, rec):
    cfg = rec.op.get("cfg") or {}
    if not cfg.get("heuristic") or len(rec.caps) < 2:
        return
    c1 = rec.caps[0]
    a1 = c1.answer
    tol = cfg.get("tol", 1e-4)
    ctx = build_context(world, rec)
    if c1.unreadable:
        return
    for n, c in enumerate(rec.caps[1:], start=2):
        if c.unreadable:
            world.violation("O-HEUR", "unreadable-second-phase", {"what": c.unreadable[:2]})
            return
        pairs, miss, extra = match_sigs([r["sig"] for r in c1.rows], [r["sig"] for r in c.rows])
        if miss:
            world.violation("O-HEUR", "second-phase-dropped-rows", {"n": len(miss), "call": n})
        if len(extra) != 1:
            world.violation("O-HEUR", "second-phase-extra-row-count", {"n": len(extra), "call": n})
        elif ctx.ok and ctx.tcol is not None and a1.obj is not None:
            r = c.rows[extra[0]]
            want = sig_sub((a1.obj - tol, 0.0, 0.0)[:K + 1], unit_F_sig(ctx.tcol))
            if r["sense"] != "le" or not sig_close(r["sig"], want, 1e-9):
                world.violation("O-HEUR", "second-phase-added-row-is-not-objective>=wc-tol",
                                {"row": r["sig"], "want": want, "call": n})
        if len(c.lmis) != len(c1.lmis):
            world.violation("O-HEUR", "second-phase-lmi-count", {"call": n})
        if c.sense != "min":
            world.violation("O-HEUR", "second-phase-sense", {"call": n})
        if abs(c.obj_sig[0]) > 1e-12:
            world.violation("O-HEUR", "second-phase-objective-constant", {"call": n})
        if cfg.get("heuristic") == "trace":
            want = (0.0,) + tuple(float(np.trace(seam.probe_G(k, c.nG))) for k in range(K))
            if not sig_close(c.obj_sig, want, 1e-9):
                world.violation("O-HEUR", "trace-heuristic-objective-is-not-trace-G", {"call": n})
    # outcome clauses (fault-free runs only)
    aL = rec.caps[-1].answer
    if rec.exc is None and rec.result is not None and not rec.injected and a1.obj is not None:
        # accuracy-dependent clauses need accurate answers: a REAL solver that reports "optimal_inaccurate" for one
        # of the problems promises nothing beyond that status (same rule as O-PRIMAL)
        real = a1.mode == "real" and all(c.answer.status == "optimal" for c in rec.caps) and \
            not getattr(rec, "spontaneous", False)
        for c_ in rec.caps:
            G_ = getattr(c_.answer, "G", None)
            if real and G_ is not None:
                ev_ = np.linalg.eigvalsh((np.asarray(G_) + np.asarray(G_).T) / 2)
                if ev_.min() < -1e-6 * (1.0 + abs(ev_.max())):
                    real = False      # (same rule as O-PRIMAL: the solver's own answer is not accurate to 1e-6)
        scale = 1.0 + abs(a1.obj)
        mode = cfg.get("mode", "dual")
        if mode == "primal" and real:
            # the primal value stays within the stated tolerance of the optimum
            if float(rec.result) < a1.obj - tol - EPS_REAL * scale or float(rec.result) > a1.obj + EPS_REAL * scale:
                world.violation("O-HEUR", "primal-value-outside-tolerance-of-the-optimum",
                                {"returned": float(rec.result), "optimum": a1.obj, "tol": tol})
        if cfg.get("heuristic") == "trace" and real and aL.G is not None and a1.G is not None:
            t1, tL = float(np.trace(a1.G)), float(np.trace(aL.G))
            world.residual("O-HEUR/trace", max(0.0, (tL - t1) / (1.0 + abs(t1))))
            if tL > t1 + EPS_REAL * 10 * (1.0 + abs(t1)):
                world.violation("O-HEUR", "trace-increased", {"before": t1, "after": tL})
        # the exposed primal instance is the last call's
        Gv = getattr(rec.pep, "G_value", None)
        if Gv is not None and aL.G is not None and np.asarray(Gv).shape == aL.G.shape:
            if float(np.max(np.abs(np.asarray(Gv) - aL.G))) > 1e-9 * (1 + float(np.max(np.abs(aL.G)))):
                world.violation("O-HEUR", "exposed-gram-is-not-the-last-phase", {})
    world.reach["heuristic_exchange_checked"] += 1


# --------------------------------------------------------------------------------------------------
# C17 tables
# --------------------------------------------------------------------------------------------------
def _last_ok_solve(world):
    for r in reversed(world.solves):
        if r.exc is None and r.result is not None:
            return r
    return None


def check_tables(world, fname, tabs):
    """Entry (i, j) of every table equals the multiplier the peer returned for the row that carried the
    constraint generated for samples (i, j); zero where the class generates none; names address the cell."""
    f = world.h[fname]
    rec = _last_ok_solve(world)
    if rec is None or world.solves[-1] is not rec:
        return
    ctx = build_context(world, rec)
    if not ctx.ok:
        return
    cap = rec.caps[0]
    ans = cap.answer
    class_items = [it for it in ctx.exp_cons if it["source"] == "class"
                   and any(r["obj"] is it["obj"] and r["owner"] is f for r in rec.created)]
    if not class_items:
        world.reach["tables_function_without_class_rows"] += 1
    calls = [c for c in rec.table_calls if c["f"] is f]
    fid = f.get_name() or "Function_%s" % f.counter
    # (a) every generated class constraint appears in exactly one table, at the cell its name addresses,
    #     and that cell holds the multiplier of the row that carried it
    by_obj = {}
    for key, df in tabs.items():
        if df.columns.name != "IC_%s" % fid:
            world.violation("O-TABLES", "table-not-labelled-with-its-function", {"table": key, "label": str(df.columns.name)})
    for it in class_items:
        name = it["obj"].get_name() or ""
        if not name.startswith("IC_%s_" % fid) or not name.endswith(")") or "(" not in name:
            world.violation("O-TABLES", "class-constraint-name-malformed", {"name": name})
            continue
        cond = name[len("IC_%s_" % fid):name.index("(", len("IC_%s_" % fid))]
        inside = name[name.index("(", len("IC_%s_" % fid)) + 1:-1]
        labs = [x.strip() for x in inside.split(", ")]
        if cond not in tabs:
            world.violation("O-TABLES", "no-table-for-condition", {"condition": cond, "tables": sorted(tabs)})
            continue
        df = tabs[cond]
        if "row" not in it:
            continue
        wants = [float(ans.row_dual[k]) for k, r in enumerate(cap.rows) if sig_close(r["sig"], it["sig"])]
        try:
            if len(labs) == 1:
                cell = df[labs[0]]
                cell = cell.iloc[0] if hasattr(cell, "iloc") and cell.shape == (1,) else cell
            else:
                cell = df.loc[labs[0], labs[1]]
        except Exception:
            world.violation("O-TABLES", "constraint-name-does-not-address-a-cell", {"name": name, "table": cond})
            continue
        if np.ndim(cell) != 0:
            world.reach["table_ambiguous_labels"] += 1
            continue
        if not any(abs(float(cell) - w) <= 1e-9 * (1 + abs(w)) for w in wants):
            world.violation("O-TABLES", "named-cell-is-not-the-multiplier-of-its-constraint",
                            {"table": cond, "cell": labs, "got": float(cell), "peer": wants[:3]})
        world.reach["table_named_cells"] += 1
    # every table returned belongs to a condition generated at this solve (no table of an earlier solve's condition)
    if calls:
        for key in tabs:
            if not any(c["name"] == key for c in calls):
                world.violation("O-TABLES", "table-of-a-condition-that-was-not-generated-at-this-solve",
                                {"table": key, "generated": sorted(set(c["name"] for c in calls))})
    # (b) positional truth: cell (i, j) vs the constraint the class generates for samples (i, j)
    for c in calls:
        key = c["name"]
        if c.get("unknown"):
            continue
        if key not in tabs:
            if len(c["l1"]) > 0 and (c["l2"] is None or len(c["l2"]) > 0):
                world.violation("O-TABLES", "no-table-for-condition", {"condition": key, "tables": sorted(tabs)})
            continue
        vals = np.asarray(tabs[key].values, dtype=float)
        l1, l2 = c["l1"], c["l2"]
        shape = (1, len(l1)) if l2 is None else (len(l1), len(l2))
        if vals.shape != shape:
            world.violation("O-TABLES", "table-shape", {"table": key, "shape": list(vals.shape), "samples": list(shape)})
            continue
        # expected labels
        def labels(lst):
            return [(t[0].get_name() or "Point_%d" % k) for k, t in enumerate(lst)]
        # K-22: labels must identify samples.  Two clashes are the library's own doing: (a) unnamed samples are
        # labelled by their position in *each* list, so "Point_0" of the rows and "Point_0" of the columns may be
        # different samples; (b) two samples recorded at one point object (repeated evaluation of a
        # non-differentiable function) share that point's label.  Two different points the user gave one name to
        # are the user's business.
        def clash_between(ta, ka, tb, kb):
            if ta is tb:
                return False
            na, nb = ta[0].get_name(), tb[0].get_name()
            if ta[0] is tb[0] and na is not None:
                return True                                   # (b)
            if na is None and nb is None and ka == kb:
                return True                                   # (a)
            return False
        clash = False
        for i, ti in enumerate(l1):
            for j, tj in enumerate(l1):
                if i < j and clash_between(ti, i, tj, -1 - j):
                    clash = True
        if l2 is not None:
            for i, ti in enumerate(l2):
                for j, tj in enumerate(l2):
                    if i < j and clash_between(ti, i, tj, -1 - j):
                        clash = True
            for i, ti in enumerate(l1):
                for j, tj in enumerate(l2):
                    if clash_between(ti, i, tj, j):
                        clash = True
        if clash:
            world.violation("O-TABLES", "labels-do-not-identify-the-samples", {"table": key, "rows": labels(l1)[:6],
                                                                              "columns": labels(l2)[:6] if l2 is not None else []})
        if l2 is None:
            if [str(x) for x in tabs[key].columns] != labels(l1):
                world.violation("O-TABLES", "table-labels", {"table": key})
        else:
            if [str(x) for x in tabs[key].index] != labels(l1) or [str(x) for x in tabs[key].columns] != labels(l2):
                world.violation("O-TABLES", "table-labels", {"table": key})
        mine = [it for it in class_items if "row" in it]
        for i, ti in enumerate(l1):
            for j, tj in (enumerate(l2) if l2 is not None else [(None, None)]):
                try:
                    con = c["fn"](*ti) if l2 is None else c["fn"](*(tuple(ti) + tuple(tj)))
                    sig = seam.expression_sig(con.expression)
                except Exception:
                    continue
                cell = vals[0, i] if l2 is None else vals[i, j]
                if max(abs(x) for x in sig) <= 1e-13:
                    continue   # the pair formula degenerates to 0 == 0 / 0 <= 0: any multiplier is as good as another
                if l2 is not None and ti is tj:
                    continue   # same sample on both sides: no condition to report
                wants = []
                for it in mine:
                    if sig_close(it["sig"], sig):
                        wants += [float(ans.row_dual[k]) for k, r in enumerate(cap.rows) if sig_close(r["sig"], sig)]
                        break
                world.reach["table_cells"] += 1
                if not wants:
                    if abs(cell) > 1e-12:
                        world.violation("O-TABLES", "nonzero-cell-without-constraint",
                                        {"table": key, "cell": [i, j], "got": float(cell)})
                    continue
                # for a symmetric condition the class generates one constraint per unordered pair: the cell
                # that holds it is (i, j) or (j, i); the other one must be 0
                if not any(abs(cell - w) <= 1e-9 * (1 + abs(w)) for w in wants):
                    if c["symmetry"] and l2 is not None and abs(cell) <= 1e-12 and i != j and \
                            any(abs(vals[j, i] - w) <= 1e-9 * (1 + abs(w)) for w in wants if j < vals.shape[0] and i < vals.shape[1]):
                        continue
                    world.violation("O-TABLES", "cell-is-not-the-multiplier-of-the-constraint-of-its-pair",
                                    {"table": key, "cell": [i, j], "got": float(cell), "peer": wants[:3]})
    world.reach["tables_checked"] += 1
