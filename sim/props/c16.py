"""C16 - no number without a solution: failures are reported, not fabricated."""
import copy

from sim import templates
from sim.props.base import Prop, draw_solve, effective_transport

NOVALUE_STATUSES = ["infeasible", "unbounded", "infeasible_inaccurate", "unbounded_inaccurate"]
MOSEK_EXTRA = ["prim_and_dual_infeas"]
UNDETERMINED = ["user_limit", "unknown", "ill_posed"]
SMALL = {"gd": 2, "pgd": 2, "ppa": 1, "operator": 1, "bcd": 1, "linear": 1, "gd_qg": 1, "inexact_gd": 1}


def accessor_ops(b, rng, with_generated):
    """(handle, accessor, kind-label) for every object kind of the matrix; objects without leaves excluded."""
    ops = []
    info = b.info
    x0, xn = info.get("x0"), info.get("xn")
    if x0:
        ops.append(({"op": "eval", "h": x0}, "leaf-point"))
    if xn and xn != x0:
        ops.append(({"op": "eval", "h": xn}, "derived-point"))
    leaf_e = None
    inner_e = None
    for op in b.ops:
        if op["op"] == "oracle" and leaf_e is None:
            leaf_e = op["out"][1]
        if op["op"] in ("sq", "inner") and inner_e is None:
            inner_e = op["out"]
    if leaf_e:
        ops.append(({"op": "eval", "h": leaf_e}, "leaf-expression"))
    if inner_e:
        ops.append(({"op": "eval", "h": inner_e}, "derived-expression-inner"))
    for m in (info.get("metrics") or [])[:1]:
        ops.append(({"op": "eval", "h": m}, "metric-expression"))
    for c in b.conlist[:2] + [c_ for c_ in b.conlist[-1:] if c_ not in b.conlist[:2]]:
        ops.append(({"op": "eval", "h": c}, "user-constraint"))
        ops.append(({"op": "eval_dual", "h": c}, "user-constraint"))
    for M in b.psds[:2]:
        ops.append(({"op": "eval", "h": M}, "lmi"))
        ops.append(({"op": "eval_dual", "h": M}, "lmi"))
    if with_generated and info.get("main_f"):
        ops.append(({"op": "grab", "out": "gen_c", "h": info["main_f"], "attr": "list_of_class_constraints", "index": 0},
                    None))
        ops.append(({"op": "eval", "h": "gen_c"}, "class-constraint"))
        ops.append(({"op": "eval_dual", "h": "gen_c"}, "class-constraint"))
    for f in b.funcs[:1]:
        ops.append(({"op": "class_duals", "f": f}, "dual-tables"))
    return ops


def _has_nonzero(tabs):
    """A table that holds only structural zeros (cells without a constraint) fabricates nothing."""
    def walk(v):
        if isinstance(v, list):
            return any(walk(x) for x in v)
        if isinstance(v, str):
            try:
                return float.fromhex(v) != 0.0
            except ValueError:
                return False
        return False
    return any(walk(t.get("values")) for t in (tabs or {}).values())


class C16(Prop):
    id = "C16"
    level = "fault_enumeration"
    RUNS = {"quick": 1800, "thorough": 12000}
    BUDGET = {"quick": 80, "thorough": 900}
    ORACLES = ("O-ERR",)
    RULE = ("enumerated: object kind {leaf / derived point, leaf / derived expression, user / class constraint, LMI, "
            "function-level LMI, dual tables} x accessor {eval, eval_dual} x state {never solved, solve returned None, "
            "solve raised, built after a failed solve} (must raise ValueError); peer status {infeasible, unbounded, "
            "*_inaccurate; MOSEK prim_infeas / dual_infeas / prim_and_dual_infeas with a certificate ray} x transport "
            "on the first solver call (solve must return None); second-phase / undetermined statuses and raised solver "
            "errors (never a number different from the fault-free twin's or from the same solve without heuristic); invalid option values (must raise); sampled: "
            "genuinely unbounded / infeasible template models on a REAL peer; non-trivial = at least one contract cell "
            "judged; distinct = event-log digests")
    ASSUMPTIONS = ("objects whose value depends on no leaf (constants, the zero gradient of a stationary point) are "
                   "outside the must-raise matrix",
                   "the MOSEK transport is a stand-in; its certificate content is arbitrary non-zero numbers")
    COMPONENTS = {"real": ["every line of PEPit", "cvxpy modelling layer", "CLARABEL in REAL runs"],
                  "stub": ["solver (scripted statuses)", "mosek package (stand-in)", "licence state", "sys.stdout"]}

    def generate(self, rng, tier, idx):
        case = ["accessors", "accessors", "status", "status", "twin", "options", "real-unbounded"][idx % 7]
        deco = [rng.choice(["lmi_sym", "lmi_func", "lmi_asym", "func_cons", "eq_cons", "extra_metric", "part_cons",
                            "part_cons", "composite_items", "lmi_affine", "useless_partition"])
                for _ in range(rng.choice([1, 2]))]
        b = templates.build_model(rng, weights=SMALL if case != "real-unbounded" else None,
                                  n=rng.choice([1, 2]), decorations=deco)
        ops = list(b.ops)
        plan = {"case": case, "opts": {"dump_seam": case == "real-unbounded"}, "twin": None}
        transport = rng.choice(["cvxpy", "mosek"])
        solve = draw_solve(rng, b.P, "tau", peer_mode="tagged", allow_mosek=False)
        if transport == "mosek":
            solve["cfg"]["wrapper"] = "mosek"
            solve["env"] = {"mosek": "present"}
        if case == "accessors":
            state = ["never", "none", "raised", "after-failed", "failed-after-success",
                     "failed-after-second-phase-failure"][(idx // 7) % 6]
            plan["state"] = state
            if state == "failed-after-success":
                # a solve succeeded, then a solve of the same object found no value: nothing may be readable
                good = copy.deepcopy(solve)
                good["out"] = "tau_good"
                ops.append(good)
                if rng.random() < 0.7:
                    # the user reads everything after the successful solve (whatever is memoised is memoised now)
                    for o, kd in accessor_ops(b, rng, with_generated=False):
                        ops.append(dict(o))
                solve["peer"]["script"] = {"1": rng.choice([{"action": "status", "status": rng.choice(NOVALUE_STATUSES)},
                                                            {"action": "raise"}])}
                ops.append(solve)
            elif state == "failed-after-second-phase-failure":
                # a dimension-reduction solve whose later solver call raised (problem 1 had been solved: its
                # multipliers were assigned, no primal value was stored), then a solve that finds no value
                first = copy.deepcopy(solve)
                first["out"] = "tau_aborted"
                first["cfg"]["heuristic"] = rng.choice(["trace", "logdet1", "logdet2"])
                first["cfg"]["eig"] = 0.05
                first["peer"]["script"] = {"2": {"action": "raise"}}
                first["nojudge"] = True
                ops.append(first)
                solve["peer"]["script"] = {"1": {"action": "status", "status": rng.choice(NOVALUE_STATUSES)}}
                ops.append(solve)
            elif state == "none":
                st = rng.choice(NOVALUE_STATUSES)
                solve["peer"]["script"] = {"1": {"action": "status", "status": st}}
                ops.append(solve)
            elif state == "raised":
                solve["peer"]["script"] = {"1": {"action": "raise"}}
                ops.append(solve)
            elif state == "after-failed":
                solve["peer"]["script"] = {"1": {"action": "status", "status": rng.choice(NOVALUE_STATUSES)}}
                ops.append(solve)
                # objects built after the failed solve
                from sim.props.c02 import post_solve_ops
                post = [o for o in post_solve_ops(rng, {"ops": b.ops}, k=4) if o["op"] != "check"]
                ops += post
                for o in post:
                    if o["op"] in ("plin", "inner", "elin", "cons", "psd"):
                        ops.append({"op": "eval", "h": o["out"], "_kind": "built-after-failed-solve:" + o["op"]})
            acc = accessor_ops(b, rng, with_generated=(state in ("none", "raised", "after-failed", "failed-after-success",
                                                                 "failed-after-second-phase-failure")))
            for o, kind in acc:
                o = dict(o)
                if kind:
                    o["_kind"] = kind
                ops.append(o)
            plan["tag"] = "accessors/%s/%s" % (state, transport)
        elif case == "status":
            sts = NOVALUE_STATUSES + (MOSEK_EXTRA if transport == "mosek" else [])
            st = sts[(idx // 7) % len(sts)]
            solve["peer"]["script"] = {"1": {"action": "status", "status": st}}
            solve["_expect"] = "none"
            ops.append(solve)
            plan["tag"] = "status/%s/%s" % (st, transport)
        elif case == "twin":
            # faults on which the statement only says: never a number different from the fault-free twin's
            solve["cfg"]["heuristic"] = rng.choice(["trace", "logdet1", "logdet2"])
            solve["cfg"]["eig"] = 0.05
            kind = rng.randrange(3)
            twin = copy.deepcopy(solve)
            if kind == 0:
                solve["peer"]["script"] = {"2": {"action": "status", "status": rng.choice(NOVALUE_STATUSES)}}
            elif kind == 1:
                solve["peer"]["script"] = {str(rng.choice([1, 2])): {"action": "raise"}}
            else:
                solve["peer"]["script"] = {str(rng.choice([1, 2])): {"action": "status",
                                                                     "status": rng.choice(UNDETERMINED + ["optimal_inaccurate"]),
                                                                     "values": rng.choice(["none", "perturbed"])}}
            solve["_expect"] = "twin"
            plan["twin"] = b.ops + [twin]
            # ... or the number of the same solve without the dimension reduction (C14: asking for a low-dimensional
            # example never changes the reported guarantee; falling back on problem 1 after a failed later call is
            # a legitimate answer)
            twin0 = copy.deepcopy(twin)
            for key in ("heuristic", "eig", "tol"):
                twin0["cfg"].pop(key, None)
            # (in primal mode that number is the smallest performance metric of the instance of problem 1)
            plan["twin0"] = b.ops + [twin0] + [{"op": "eval", "h": m} for m in (b.info.get("metrics") or [])]
            plan["twin0_solve_at"] = len(b.ops)
            ops.append(solve)
            if kind == 1 or (kind == 0):
                # the solver call that fails is the second one: no solve of this model has succeeded, accessors
                # must still raise
                plan["state"] = "second-phase-failed"
                for o, kd in accessor_ops(b, rng, with_generated=True):
                    o = dict(o)
                    if kd:
                        o["_kind"] = kd
                        o["_only_if_solve_failed"] = True
                    ops.append(o)
            plan["tag"] = "twin/%d/%s" % (kind, transport)
        elif case == "options":
            kind = (idx // 7) % 5
            if kind in (0, 1) and rng.random() < 0.5:
                # the invalid value must be rejected whatever the model: also when it has no finite optimum
                solve["peer"]["script"] = {"1": {"action": "status", "status": rng.choice(NOVALUE_STATUSES)}}
            if kind == 0:
                solve["cfg"]["mode"] = rng.choice(["Dual", "both", "", "PRIMAL", "duall"])
                solve["_expect"] = "raise"
                ops.append(solve)
            elif kind == 1:
                solve["cfg"]["heuristic"] = rng.choice(["Trace", "logdet", "logdetx", "rank", "logdet1.5", "trace2",
                                                        "logdet-3", "logdet0x"])
                solve["_expect"] = "raise"
                ops.append(solve)
            elif kind == 4:
                # numeric options of the dimension reduction: a string, None, nan, inf or a negative number must be
                # rejected, and rejected before anything is solved (nothing may be readable afterwards)
                solve["cfg"]["heuristic"] = rng.choice(["trace", "logdet1", "logdet2"])
                bad = rng.choice(["1e-4", None, float("nan"), float("inf"), -1.0, -1e-6, [1e-4]])
                which = rng.choice(["tol", "eig"])
                solve["cfg"]["tol"], solve["cfg"]["eig"] = 1e-4, 1e-2
                solve["cfg"][which] = bad
                solve["_expect"] = "raise"
                ops.append(solve)
                plan["state"] = "invalid-option"
                for o, kd in accessor_ops(b, rng, with_generated=False):
                    o = dict(o)
                    if kd:
                        o["_kind"] = kd
                    ops.append(o)
            elif kind == 2:
                f = b.info.get("main_f") or b.funcs[0]
                x0 = b.info.get("x0") or b.points[0]
                ops.append({"op": "step", "kind": "inexact_gradient_step", "out": ["ox", "od", "ov"],
                            "args": {"x0": "@" + x0, "f": "@" + f, "gamma": 0.1, "epsilon": 0.1,
                                     "notion": rng.choice(["Relative", "abs", "", "rel"])}, "_expect": "raise"})
            else:
                f = b.info.get("main_f") or b.funcs[0]
                x0 = b.info.get("x0") or b.points[0]
                ops.append({"op": "step", "kind": "inexact_proximal_step",
                            "out": ["o1", "o2", "o3", "o4", "o5", "o6", "o7"],
                            "args": {"x0": "@" + x0, "f": "@" + f, "gamma": 0.5,
                                     "opt": rng.choice(["PD_gapIV", "pd_gapI", "", "PD_gap"])}, "_expect": "raise"})
            plan["tag"] = "options/%d/%s" % (kind, transport)
        else:
            # genuinely unbounded or infeasible model on a REAL peer
            kind = rng.choice(["unbounded", "infeasible"])
            if kind == "unbounded":
                ops = [o for o in ops if not (o["op"] == "cons" and o.get("how") == "initial")]
            else:
                x0 = b.info.get("x0") or b.points[0]
                ops.append({"op": "sq", "out": "inf_e", "a": x0})
                ops.append({"op": "cons", "out": "inf_c", "lhs": "inf_e", "rel": "<=", "rhs": -1.0, "target": b.P})
            solve["peer"] = {"mode": "real", "solver": "CLARABEL"}
            solve["cfg"]["kwargs"] = {"solver": "CLARABEL"}
            solve["_expect"] = "none-real:" + kind
            ops.append(solve)
            plan["tag"] = "real/%s/%s/%s" % (kind, b.info.get("template"), transport)
        plan["ops"] = ops
        return plan

    def legs(self, plan):
        legs = {"main": {"ops": plan["ops"], "opts": plan["opts"]}}
        if plan.get("twin"):
            legs["twin"] = {"ops": plan["twin"], "opts": plan["opts"]}
        if plan.get("twin0"):
            legs["twin0"] = {"ops": plan["twin0"], "opts": plan["opts"]}
        return legs

    def judged_legs(self, plan):
        return []

    def oplists(self, plan):
        return [["ops"]]

    def judge(self, plan, res):
        r = res["main"]
        viol = []
        judged = 0
        cells = {}

        def cell(*parts):
            k = "/".join(str(p) for p in parts)
            cells[k] = cells.get(k, 0) + 1
        outs = r.get("outcomes") or []
        had_success = False
        solve_raised = False
        last_script, last_transport = None, "?"
        for i, (op, out) in enumerate(zip(plan["ops"], outs)):
            if op["op"] == "solve":
                solve_raised = out.get("status") == "exc"
                last_script = (op.get("peer") or {}).get("script")
                last_transport = (out.get("transports") or ["?"])[0]
                exp = op.get("_expect")
                val = out.get("value")
                if out.get("status") == "ok" and val is not None:
                    had_success = True
                elif out.get("ncalls") == 1 and (op.get("peer") or {}).get("script", {}).get("1"):
                    had_success = False     # a solve that found no value invalidates what an earlier solve left
                if exp == "none" and out.get("ncalls"):
                    judged += 1
                    cell("status", op["peer"]["script"]["1"]["status"], (out.get("transports") or ["?"])[0])
                    if out.get("status") == "ok" and val is not None:
                        viol.append({"oracle": "O-ERR", "signature": "solve-returns-a-number-for-a-no-solution-status:"
                                     + (out.get("transports") or ["?"])[0],
                                     "detail": {"status": op["peer"]["script"]["1"]["status"], "value": val}})
                    elif out.get("status") == "exc":
                        viol.append({"oracle": "O-ERR", "signature": "solve-raises-instead-of-returning-none:"
                                     + str(out.get("exc_type")) + ":" + (out.get("transports") or ["?"])[0],
                                     "detail": {"status": op["peer"]["script"]["1"]["status"], "msg": out.get("msg")}})
                elif exp and exp.startswith("none-real") and out.get("ncalls"):
                    # judged only when the real peer itself reported that there is no solution
                    st = ((out.get("seam") or [{}])[0]).get("status")
                    if st in ("infeasible", "unbounded", "infeasible_inaccurate", "unbounded_inaccurate"):
                        judged += 1
                        if out.get("status") == "ok" and val is not None:
                            viol.append({"oracle": "O-ERR", "signature": "solve-returns-a-number-for-a-model-the-solver-found-"
                                         + st.split("_")[0] + ":" + (out.get("transports") or ["?"])[0],
                                         "detail": {"value": val, "kind": exp}})
                elif exp == "raise":
                    judged += 1
                    cell("invalid-option", "solve")
                    if out.get("status") != "exc":
                        viol.append({"oracle": "O-ERR", "signature": "invalid-option-accepted:solve",
                                     "detail": {"cfg": op["cfg"], "value": val}})
                elif exp == "twin" and "twin" in res:
                    judged += 1
                    tw = (res["twin"].get("outcomes") or [{}])[-1]
                    o0 = (res.get("twin0") or {}).get("outcomes") or []
                    k0 = plan.get("twin0_solve_at", len(o0) - 1)
                    tw0 = o0[k0] if len(o0) > k0 else {}
                    mets0 = [o.get("value") for o in o0[k0 + 1:] if o.get("status") == "ok"]
                    try:
                        min0 = min(float.fromhex(v) for v in mets0) if mets0 else None
                    except (TypeError, ValueError):
                        min0 = None
                    same_as_min0 = min0 is not None and float.fromhex(val) == min0 if isinstance(val, str) else False
                    if out.get("status") == "ok" and val is not None and val != tw.get("value") and \
                            val != tw0.get("value") and not same_as_min0:
                        sc = op["peer"]["script"]
                        perturbed = any(v.get("values") == "perturbed" for v in sc.values())
                        if not perturbed:
                            viol.append({"oracle": "O-ERR", "signature": "number-differs-from-fault-free-twin",
                                         "detail": {"script": sc, "value": val, "twin": tw.get("value")}})
            elif op.get("_expect") == "raise":
                judged += 1
                cell("invalid-option", op.get("kind", op["op"]))
                if out.get("status") != "exc":
                    viol.append({"oracle": "O-ERR", "signature": "invalid-option-accepted:" + op.get("kind", op["op"]),
                                 "detail": {"args": {k: v for k, v in op["args"].items() if not str(v).startswith("@")}}})
            elif op.get("_kind") and not had_success:
                if out.get("status") == "skipped":
                    continue
                if op.get("_only_if_solve_failed"):
                    if not solve_raised:
                        continue
                    # the first solver call succeeded, a later call of the dimension reduction failed and solve
                    # raised: the multipliers of problem 1 are a legitimate certificate (C14), so dual accessors
                    # and dual tables are not judged; primal values must not be readable (no returned instance)
                    if op["op"] != "eval":
                        continue
                    judged += 1
                    if out.get("status") == "ok" and not out.get("leafless"):
                        sc = last_script or {}
                        act = "+".join(sorted(set(v.get("action", "?") for v in sc.values())))
                        viol.append({"oracle": "O-ERR", "signature": "primal-values-readable-after-failed-second-phase:%s:%s" % (
                            last_transport, act), "detail": {"kind": op["_kind"], "script": sc,
                                                             "value": str(out.get("value"))[:80]}})
                    continue
                judged += 1
                kind = op["_kind"]
                acc = op["op"]
                cell("accessor", kind.split(":")[0], acc, plan.get("state"), plan.get("tag", "").split("/")[-1])
                if kind == "dual-tables":
                    if out.get("status") == "exc" and out.get("exc_type") != "ValueError":
                        viol.append({"oracle": "O-ERR", "signature": "dual-tables-before-success-raise:" + out["exc_type"],
                                     "detail": {"state": plan.get("state")}})
                    elif out.get("status") == "ok" and _has_nonzero(out.get("value")):
                        viol.append({"oracle": "O-ERR", "signature": "dual-tables-of-numbers-before-success",
                                     "detail": {"state": plan.get("state")}})
                    continue
                if out.get("status") == "ok" and out.get("leafless"):
                    continue   # a constant: its value is not a solution, returning it fabricates nothing
                if out.get("status") == "ok":
                    viol.append({"oracle": "O-ERR", "signature": "%s-returns-a-value-before-success:%s" % (acc, kind),
                                 "detail": {"state": plan.get("state"), "value": str(out.get("value"))[:100]}})
                elif out.get("exc_type") != "ValueError":
                    viol.append({"oracle": "O-ERR", "signature": "%s-raises-%s-instead-of-ValueError:%s" % (
                        acc, out.get("exc_type"), kind), "detail": {"state": plan.get("state"), "msg": out.get("msg")}})
        # real unbounded / infeasible: judged through the peer's own status (kept in the event log only);
        # here: a number may only come back if the real peer said optimal
        seen, outv = set(), []
        for v in viol:
            if v["signature"] not in seen:
                seen.add(v["signature"])
                outv.append(v)
        return outv, {"nontrivial": judged > 0, "noverdict": judged == 0, "counters": cells}

    def accept_oracle(self, oracle):
        return oracle == "O-ERR"


PROP = C16()
