"""C07 - oracle bookkeeping is coherent for leaf and composite functions."""
from sim.props.base import Prop

LEAF = [("SmoothConvexFunction", {"L": 1.0}), ("ConvexFunction", {}), ("SmoothStronglyConvexFunction", {"mu": 0.1, "L": 1.0}),
        ("ConvexLipschitzFunction", {"M": 1.0}), ("MonotoneOperator", {}), ("CocoerciveOperator", {"beta": 1.0}),
        ("StronglyConvexFunction", {"mu": 0.3}), ("SmoothFunction", {"L": 2.0}), ("ConvexIndicatorFunction", {"D": 1.0})]
WEIGHTS = [1, 1, 2, 0.5, -1, 0, 0, 1 / 3, -0.5, 3]


def gen_history(rng, nops):
    ops = [{"op": "pep", "out": "P"}]
    funcs, zero_funcs, points, exprs = [], set(), [], []
    recipes = {}
    n = [0]

    def nm(b):
        n[0] += 1
        return "%s%d" % (b, n[0])

    for _ in range(rng.choice([1, 2, 2, 3, 4])):
        cls, params = rng.choice(LEAF)
        op = {"op": "func", "out": nm("f"), "P": "P", "cls": cls, "params": dict(params)}
        if rng.random() < 0.25:
            op["reuse_gradient"] = rng.random() < 0.5
        ops.append(op)
        funcs.append(op["out"])
    for _ in range(rng.choice([1, 2, 3])):
        x = nm("x")
        ops.append({"op": "point", "out": x, "P": "P"})
        points.append(x)

    def some_point():
        c = rng.random()
        if c < 0.45 and points:
            return rng.choice(points)
        if c < 0.6:
            x = nm("q")
            ops.append({"op": "newpoint", "out": x})
            points.append(x)
            return x
        if c < 0.64 and len(points) >= 2:
            # a point that nearly coincides with another one: x0 + 1e-9 * y0 is another point
            x0, y0 = rng.sample(points, 2)
            x = nm("n")
            ops.append({"op": "plin", "out": x, "terms": [[x0, 1.0], [y0, rng.choice([1e-9, -1e-9, 1e-10, 3e-9])]]})
            points.append(x)
            return x
        if c < 0.8 and points:
            # an aliased point: another object with the same decomposition
            x0 = rng.choice(points)
            x = nm("a")
            terms = rng.choice([[[x0, 1.0]], [[x0, 0.5], [x0, 0.5]], [[x0, 2.0], [x0, -1.0]]])
            if rng.random() < 0.25:
                # the same point written with an explicit zero multiple of another point (0 * y keeps its key)
                y0 = rng.choice(points)
                terms = rng.choice([[[x0, 1.0], [y0, 0.0]], [[y0, 0.0], [x0, 1.0]], [[x0, 0.0]], [[y0, 0.0]]])
            ops.append({"op": "plin", "out": x, "terms": terms})
            return x
        if len(points) >= 2:
            if recipes and rng.random() < 0.5:
                # the same point written with its terms in another order (equal decomposition, other insertion order)
                y0 = rng.choice(sorted(recipes))
                terms = list(recipes[y0])
                rng.shuffle(terms)
                if terms == recipes[y0]:
                    terms = terms[::-1]
                x = nm("r")
                ops.append({"op": "plin", "out": x, "terms": terms})
                return x
            a, b = rng.sample(points, 2)
            x = nm("y")
            terms = [[a, 1.0], [b, float("%.2g" % rng.uniform(-1, 1))]]
            if len(points) >= 3 and rng.random() < 0.4:
                c = rng.choice(points)
                terms.append([c, float("%.2g" % rng.uniform(-1, 1))])
            ops.append({"op": "plin", "out": x, "terms": terms})
            recipes[x] = [list(t) for t in terms]
            points.append(x)
            return x
        return rng.choice(points)

    dec = {f: {f: 1.0} for f in funcs}

    def sym(t):
        if isinstance(t, str):
            return dict(dec[t])
        tag = t[0]
        if tag in ("add", "sub", "iadd"):
            a_, b_ = sym(t[1]), sym(t[2])
            out = dict(a_)
            for k, v in b_.items():
                out[k] = out.get(k, 0.0) + (-v if tag == "sub" else v)
            return out
        if tag in ("mul", "rmul"):
            return {k: v * t[1] for k, v in sym(t[2]).items()}
        if tag == "div":
            return {k: v * (1 / t[2]) for k, v in sym(t[1]).items()}
        if tag == "neg":
            return {k: -v for k, v in sym(t[1]).items()}
        raise ValueError(t)

    def fexpr():
        a = rng.choice(funcs)
        b = rng.choice(funcs)
        w = rng.choice(WEIGHTS)
        form = rng.randrange(10)
        zero = False
        if form == 0:
            e = ["add", a, b]
        elif form == 1:
            e = ["sub", ["add", a, b], b]
        elif form == 2:
            e = ["sub", a, a]
            zero = True
        elif form == 3:
            e = ["add", a, ["mul", 0, b]]
        elif form == 4:
            e = ["add", ["mul", w, a], ["rmul", rng.choice(WEIGHTS), b]]
        elif form == 5:
            e = ["div", ["add", a, b], rng.choice([2, 3, 0.5])]
        elif form == 6:
            e = ["neg", ["sub", a, b]]
        elif form == 7:
            e = ["mul", 0, a]
            zero = True
        elif form == 9:
            # running sum: `total = partial; total += g` with `partial` a composite that stays in use
            comp = [f_ for f_ in funcs if f_ in dec and len(dec[f_]) >= 1 and f_.startswith("F")]
            e = ["iadd", rng.choice(comp) if comp else ["add", a, b], b]
        else:
            e = ["add", ["add", a, b], rng.choice(funcs)]
        F = nm("F")
        ops.append({"op": "fexpr", "out": F, "expr": e})
        funcs.append(F)
        dec[F] = sym(e)
        if not any(w != 0 for w in dec[F].values()):
            zero_funcs.add(F)
        return F

    for _ in range(nops):
        c = rng.random()
        if c < 0.18:
            fexpr()
        elif c < 0.62:
            f = rng.choice(funcs)
            x = some_point()
            kind = rng.choice(["oracle", "oracle", "gradient", "value", "value", "call"])
            if kind == "oracle":
                outs = [nm("g"), nm("v")]
                ops.append({"op": "oracle", "out": outs, "f": f, "x": x})
                points.append(outs[0])
                exprs.append(outs[1])
            elif kind == "gradient":
                g = nm("g")
                ops.append({"op": "gradient", "out": g, "f": f, "x": x, "sub": rng.random() < 0.3})
                points.append(g)
            else:
                v = nm("v")
                ops.append({"op": "value", "out": v, "f": f, "x": x, "call": kind == "call"})
                exprs.append(v)
        elif c < 0.72:
            f = rng.choice(funcs)
            outs = [nm("xs"), nm("gs"), nm("fs")]
            ops.append({"op": "stationary", "out": outs, "f": f})
            points.append(outs[0])
        elif c < 0.77:
            f = rng.choice([g for g in funcs if g not in zero_funcs] or funcs)
            if f in zero_funcs:
                continue
            outs = [nm("xf"), nm("gf"), nm("ff")]
            ops.append({"op": "fixed", "out": outs, "f": f})
            points.append(outs[0])
        elif c < 0.95:
            cand = [g for g in funcs if g not in zero_funcs]
            if not cand or not points:
                continue
            f = rng.choice(cand)
            x0 = rng.choice(points)
            kind = rng.choice(["proximal_step", "proximal_step", "inexact_gradient_step", "exact_linesearch_step",
                               "linear_optimization_step", "epsilon_subgradient_step", "inexact_proximal_step",
                               "bregman_gradient_step", "bregman_proximal_step"])
            if kind == "proximal_step":
                outs = [nm("x"), nm("g"), nm("v")]
                args = {"x0": "@" + x0, "f": "@" + f, "gamma": float("%.2g" % rng.uniform(0.1, 2))}
            elif kind == "inexact_gradient_step":
                outs = [nm("x"), nm("d"), nm("v")]
                args = {"x0": "@" + x0, "f": "@" + f, "gamma": 0.5, "epsilon": 0.1,
                        "notion": rng.choice(["absolute", "relative"])}
            elif kind == "exact_linesearch_step":
                outs = [nm("x"), nm("g"), nm("v")]
                args = {"x0": "@" + x0, "f": "@" + f, "directions": ["@" + rng.choice(points)]}
            elif kind == "linear_optimization_step":
                outs = [nm("x"), nm("g"), nm("v")]
                args = {"dir": "@" + x0, "ind": "@" + f}
            elif kind == "epsilon_subgradient_step":
                outs = [nm("x"), nm("g"), nm("v"), nm("eps")]
                args = {"x0": "@" + x0, "f": "@" + f, "gamma": 0.3}
            elif kind == "inexact_proximal_step":
                outs = [nm("x"), nm("gx"), nm("fx"), nm("w"), nm("vv"), nm("fw"), nm("eps")]
                args = {"x0": "@" + x0, "f": "@" + f, "gamma": 0.7, "opt": rng.choice(["PD_gapI", "PD_gapII", "PD_gapIII"])}
            elif kind == "bregman_gradient_step":
                outs = [nm("x"), nm("sx"), nm("hx")]
                args = {"gx0": "@" + rng.choice(points), "sx0": "@" + x0, "mirror_map": "@" + f, "gamma": 0.4}
            else:
                others = [g for g in cand if g != f and not g.startswith("F") and not f.startswith("F")]
                if not others:
                    continue
                f2 = rng.choice(others)
                outs = [nm("x"), nm("sx"), nm("hx"), nm("gx"), nm("fx")]
                args = {"sx0": "@" + x0, "mirror_map": "@" + f, "min_function": "@" + f2, "gamma": 0.4}
            ops.append({"op": "step", "kind": kind, "out": outs, "args": args})
            points.append(outs[0])
        else:
            cand = [g for g in funcs if g not in zero_funcs]
            if not cand:
                continue
            f = rng.choice(cand)
            x, g, v = nm("q"), nm("q"), nm("s")
            ops.append({"op": "newpoint", "out": x})
            ops.append({"op": "newpoint", "out": g})
            ops.append({"op": "newexpr", "out": v})
            ops.append({"op": "addpoint", "f": f, "x": x, "g": g, "v": v})
            points.append(x)
    return ops


class C07(Prop):
    id = "C07"
    level = "exploration"
    RUNS = {"quick": 6000, "thorough": 60000}
    BUDGET = {"quick": 75, "thorough": 900}
    ORACLES = ("C07", "O-IMMUT")
    RULE = ("seeded histories of 5-40 operations over 1-4 leaf functions (differentiable or not) and their combinations "
            "(weights incl. 0, cancelling sums f - f, (f + g) - g, nesting, scaling by 0): oracle / gradient / value / "
            "__call__ at an existing, new, aliased or derived point, stationary_point / fixed_point on leaf and "
            "composite functions, the 8 primitive steps on leaf and composite functions, direct add_point; no solver; "
            "after every operation the reference model's invariants I1-I6 are evaluated over list_of_points of every "
            "function and over everything returned so far; non-trivial = at least one composite sample was checked "
            "against its terms; distinct = event-log digests")
    ASSUMPTIONS = ("decompositions compared as sparse vectors with 1e-11 relative tolerance",
                   "direct add_point, fixed_point and steps are not generated on identically-zero combinations")
    COMPONENTS = {"real": ["every line of PEPit that is executed (function.py, point.py, expression.py, steps)"],
                  "stub": ["nothing: no solver is called"]}

    def generate(self, rng, tier, idx):
        nops = rng.choice([5, 8, 12, 20, 30, 40])
        return {"ops": gen_history(rng, nops), "tag": "n%d" % nops, "opts": {"oracles": ["book", "immut"]}}

    def judge(self, plan, res):
        reach = res["main"].get("reach") or {}
        return [], {"nontrivial": reach.get("book_composite_samples", 0) > 0,
                    "noverdict": reach.get("book_checked", 0) == 0}

    def accept_oracle(self, oracle):
        return oracle.startswith("C07") or oracle == "O-IMMUT"


PROP = C07()
