"""C04 - class constraints are complete and independent of the declaration order."""
import copy

from sim import templates
from sim.props.base import Prop, draw_solve

REUSE_TRUE = {"SmoothConvexFunction", "SmoothFunction", "SmoothStronglyConvexFunction", "SmoothConvexLipschitzFunction",
              "SmoothStronglyConvexQuadraticFunction", "BlockSmoothConvexFunction", "CocoerciveOperator",
              "CocoerciveStronglyMonotoneOperator", "LinearOperator", "LipschitzOperator",
              "LipschitzStronglyMonotoneOperator", "NegativelyComonotoneOperator", "NonexpansiveOperator",
              "SkewSymmetricLinearOperator", "SymmetricLinearOperator"}
NECESSARY_ONLY = {"BlockSmoothConvexFunction", "RsiEbFunction", "CocoerciveStronglyMonotoneOperator",
                  "LipschitzStronglyMonotoneOperator", "NegativelyComonotoneOperator", "StronglyMonotoneOperator"}
PURE = {"point", "newpoint", "newexpr", "stationary", "cons", "attach", "psd", "metric", "partition", "plin", "inner",
        "sq", "elin", "block", "func", "fixed"}
W04 = {"gd": 4, "gd_qg": 3, "subgradient": 1, "ppa": 2, "operator": 4, "halpern": 1, "linesearch": 1, "inexact_gd": 1,
       "bcd": 2, "linear": 3, "pgd": 1, "fw": 1, "inexact_prox": 1, "eps_subgradient": 1}


INF = float("inf")
# the same class of functions / operators written with another shipped class at the edge of its parameter range
# (base class -> [(twin class, parameters as a function of the base's, reuse_gradient to keep)])
PARAM_TWINS = {
    "SmoothConvexFunction": [("SmoothStronglyConvexFunction", lambda p: {"mu": 0.0, "L": p["L"]}, None),
                             ("SmoothConvexLipschitzFunction", lambda p: {"L": p["L"], "M": INF}, None)],
    "ConvexFunction": [("StronglyConvexFunction", lambda p: {"mu": 0.0}, None),
                       ("SmoothConvexFunction", lambda p: {"L": INF}, False),
                       ("ConvexLipschitzFunction", lambda p: {"M": INF}, None)],
    "StronglyMonotoneOperator": [("LipschitzStronglyMonotoneOperator", lambda p: {"mu": p["mu"], "L": INF}, False)],
    # quadratics whose Hessian has all its eigenvalues equal to L: the whole class of L-smooth L-strongly convex functions
    "SmoothStronglyConvexQuadraticFunction": [("SmoothStronglyConvexFunction",
                                               lambda p: {"mu": p["L"], "L": p["L"]}, None, {"mu": "L"})],
    "StronglyConvexFunction": [("SmoothStronglyConvexFunction", lambda p: {"mu": p["mu"], "L": INF}, False)],
    "ConvexLipschitzFunction": [("SmoothConvexLipschitzFunction", lambda p: {"L": INF, "M": p["M"]}, False)],
    "MonotoneOperator": [("StronglyMonotoneOperator", lambda p: {"mu": 0.0}, None),
                         ("CocoerciveOperator", lambda p: {"beta": 0.0}, False),
                         ("CocoerciveStronglyMonotoneOperator", lambda p: {"mu": 0.0, "beta": 0.0}, False),
                         ("LipschitzStronglyMonotoneOperator", lambda p: {"mu": 0.0, "L": INF}, False)],
    "NonexpansiveOperator": [("LipschitzOperator", lambda p: {"L": 1.0}, None)],
    "CocoerciveOperator": [("CocoerciveStronglyMonotoneOperator", lambda p: {"mu": 0.0, "beta": p["beta"]}, None)],
}


def param_twin(ops, rng):
    """Rewrite one leaf function of the model into an equivalent class at the edge of its parameter range."""
    cands = [o for o in ops if o["op"] == "func" and o["cls"] in PARAM_TWINS and "reuse_gradient" not in o]
    if not cands:
        return None, None, None
    fop = rng.choice(cands)
    tw = rng.choice(PARAM_TWINS[fop["cls"]])
    cls2, fn, reuse = tw[:3]
    try:
        params = fn(fop.get("params") or {})
    except KeyError:
        return None, None, None
    new = dict(fop)
    new["cls"] = cls2
    new["params"] = params
    if reuse is not None:
        new["reuse_gradient"] = reuse
    base = ops
    if len(tw) > 3:
        # the equivalence only holds at one parameter value of the base class too: move the base there
        b2 = dict(fop)
        b2["params"] = dict(fop.get("params") or {})
        for k, src in tw[3].items():
            b2["params"][k] = b2["params"][src]
        base = [b2 if o is fop else o for o in ops]
    return base, [new if o is fop else o for o in ops], "%s=%s" % (fop["cls"], cls2)


def produced(op):
    o = op.get("out")
    outs = []
    if isinstance(o, list):
        outs += o
    elif isinstance(o, str):
        outs.append(o)
    if op.get("transpose_out"):
        outs.append(op["transpose_out"])
    return outs


def consumed(op):
    from sim.executor import World
    return World._inputs(op)


def shuffle_schedule(ops, rng):
    """A uniformly random linearisation of the dependency DAG that keeps the logical sample sets."""
    reuse_leaf = set()
    for op in ops:
        if op["op"] == "func" and op["cls"] in REUSE_TRUE and op.get("reuse_gradient", True):
            reuse_leaf.add(op["out"])
    prod = {}
    for i, op in enumerate(ops):
        for h in produced(op):
            prod[h] = i
    deps = [set() for _ in ops]
    chain_prev = None
    for i, op in enumerate(ops):
        for h in consumed(op):
            if h in prod and prod[h] < i:
                deps[i].add(prod[h])
        movable = op["op"] in PURE or (op["op"] in ("oracle", "gradient", "value") and op["f"] in reuse_leaf)
        if op["op"] == "pep":
            movable = False
        if not movable:
            if chain_prev is not None:
                deps[i].add(chain_prev)
            chain_prev = i
        # everything needs the PEP object
        if i > 0:
            deps[i].add(0)
    done, order = set(), []
    remaining = set(range(len(ops)))
    while remaining:
        ready = sorted(i for i in remaining if deps[i] <= done)
        # bias: sometimes take the latest-declared ready op (pushes stationary points late / early)
        i = rng.choice(ready)
        order.append(i)
        done.add(i)
        remaining.discard(i)
    return [ops[i] for i in order]


def extension(ops, info, rng):
    """Duplicate / extend the samples of the main function without changing the logical model."""
    f = info.get("main_f")
    pts = [op["out"] for op in ops if op["op"] in ("point", "plin")]
    kind = rng.choice(["repeat", "alias", "free", "aliased_sample"])
    extra = []
    if not f or not pts:
        return [], "none"
    x = rng.choice(pts)
    fop = next((o for o in ops if o["op"] == "func" and o["out"] == f), None)
    forward_only = fop is not None and fop.get("transpose_out") and \
        not any(o.get("f") == fop["transpose_out"] for o in ops)
    if fop is not None and fop.get("transpose_out") and rng.random() < (0.85 if forward_only else 0.4):
        # a linear operator: one more (unused, bounded) sample of the adjoint
        extra.append({"op": "newpoint", "out": "ext_u"})
        extra.append({"op": "gradient", "out": "ext_w", "f": fop["transpose_out"], "x": "ext_u"})
        extra.append({"op": "sq", "out": "ext_ue", "a": "ext_u"})
        extra.append({"op": "cons", "out": "ext_uc", "lhs": "ext_ue", "rel": "<=", "rhs": 1.0, "target": info["P"]})
        return extra, "adjoint_free"
    if kind == "repeat":
        extra.append({"op": "oracle", "out": ["ext_g", "ext_v"], "f": f, "x": x})
    elif kind == "alias":
        extra.append({"op": "plin", "out": "ext_a", "terms": [[x, 1.0]]})
        extra.append({"op": "oracle", "out": ["ext_g", "ext_v"], "f": f, "x": "ext_a"})
    elif kind == "free":
        extra.append({"op": "newpoint", "out": "ext_q"})
        extra.append({"op": "oracle", "out": ["ext_g", "ext_v"], "f": f, "x": "ext_q"})
    else:
        extra.append({"op": "newpoint", "out": "ext_q"})
        extra.append({"op": "plin", "out": "ext_d", "terms": [["ext_q", 1.0], [x, -1.0]]})
        extra.append({"op": "sq", "out": "ext_e", "a": "ext_d"})
        extra.append({"op": "cons", "out": "ext_c", "lhs": "ext_e", "rel": "<=", "rhs": 0.0, "target": info["P"]})
        extra.append({"op": "oracle", "out": ["ext_g", "ext_v"], "f": f, "x": "ext_q"})
    return extra, kind


def reroute(ops, info, rng):
    """The same samples declared through another route: through the combination c * f instead of f itself."""
    f = info.get("main_f")
    if not f:
        return list(ops), None
    c = rng.choice([1.0, 2.0, 0.5, 4.0])
    out, F = [], None
    n = 0
    for op in ops:
        hit = op.get("f") == f and op["op"] in ("stationary", "oracle", "gradient", "value") and \
            rng.random() < (0.8 if op["op"] == "stationary" else 0.4)
        if not hit:
            out.append(op)
            continue
        if F is None:
            F = "rt_F"
            out.append({"op": "fexpr", "out": F, "expr": rng.choice([["mul", c, f], ["rmul", c, f], ["div", f, 1.0 / c]])})
        n += 1
        o = dict(op)
        o["f"] = F
        if op["op"] == "stationary":
            xs, gs, fs = op["out"]
            o["out"] = [xs, gs, "rt_" + fs]
            out.append(o)
            out.append({"op": "elin", "out": fs, "terms": [["rt_" + fs, 1.0 / c]]})
        elif op["op"] == "oracle":
            g, v = op["out"]
            o["out"] = ["rt_" + g, "rt_" + v]
            out.append(o)
            out.append({"op": "plin", "out": g, "terms": [["rt_" + g, 1.0 / c]]})
            out.append({"op": "elin", "out": v, "terms": [["rt_" + v, 1.0 / c]]})
        elif op["op"] == "gradient":
            g = op["out"]
            o["out"] = "rt_" + g
            o.pop("name", None)
            out.append(o)
            out.append({"op": "plin", "out": g, "terms": [["rt_" + g, 1.0 / c]]})
        else:
            v = op["out"]
            o["out"] = "rt_" + v
            o.pop("name", None)
            out.append(o)
            out.append({"op": "elin", "out": v, "terms": [["rt_" + v, 1.0 / c]]})
    return out, (c if n else None)


class C04(Prop):
    id = "C04"
    level = "exploration"
    RUNS = {"quick": 1200, "thorough": 12000}
    BUDGET = {"quick": 85, "thorough": 900}
    ORACLES = ("C04", "O-DELIVERY")
    RULE = ("for every class: a template's logical sample set as a dependency DAG; (order) two random linearisations of "
            "the same DAG (stationary point early / late, evaluations of differentiable functions in any admissible "
            "order, constraints and LMIs anywhere) must generate the same set of class rows and class LMIs over "
            "canonical leaf labels (TAGGED solve, rows read from the objects generated for that solve) and the same "
            "value (REAL); (pattern) every table cell (i, j) holds a condition iff samples i and j are different "
            "samples (by identity, never by list index; one cell per unordered pair for symmetric conditions); "
            "(extension, REAL) for classes documenting necessary-and-sufficient conditions the value is unchanged by "
            "a repeated query, a query through an aliased point, an unused query at a free point and an aliased "
            "sample; for necessary-only classes it may only decrease; (param-twin, REAL) a leaf class rewritten as another "
            "shipped class at the edge of its parameter range (mu = 0, L = inf, beta = 0, L = 1) gives the same value; "
            "non-trivial = both legs reached the solver")
    ASSUMPTIONS = ("necessary-only classes (value may decrease under extension): " + ", ".join(sorted(NECESSARY_ONLY)),
                   "REAL value comparison at 1e-4 relative, 1e-3 when an aliasing equality or a second stationary sample of the quadratic class makes the SDP non-strictly feasible",
                   "'a finite primal value is attained by a real member' (construction of an interpolant) is not decided")
    COMPONENTS = {"real": ["every line of PEPit", "cvxpy modelling layer", "CLARABEL in REAL runs"],
                  "stub": ["solver in TAGGED runs", "sys.stdout"]}

    def generate(self, rng, tier, idx):
        case = ["order", "order", "order-value", "extension", "order-resolve", "route", "param-twin"][idx % 7]
        w = W04
        if case == "order-resolve":
            # ConvexQG / RsiEb record a stationary point of their own *during* a solve when none is declared yet:
            # with an early solve the recorded samples themselves differ, which is outside the statement
            w = {k: v for k, v in W04.items() if k != "gd_qg"}
        b = templates.build_model(rng, weights=w, n=rng.choice([1, 2, 2, 3]),
                                  template=("linear" if case == "extension" and rng.random() < 0.25 else None),
                                  decorations=[] if rng.random() < 0.7 else None)
        if case == "param-twin":
            # redraw until some leaf class of the model has a twin
            for _ in range(8):
                if any(o["op"] == "func" and o["cls"] in PARAM_TWINS and "reuse_gradient" not in o for o in b.ops):
                    break
                b = templates.build_model(rng, weights={"gd": 2, "subgradient": 2, "ppa": 3, "operator": 4, "halpern": 1,
                                                        "pgd": 2, "fw": 1, "drs": 1, "tos": 1, "eps_subgradient": 1,
                                                        "inexact_prox": 1},
                                          n=rng.choice([1, 2, 2, 3]), decorations=[] if rng.random() < 0.7 else None)
        if case == "order" and (idx // 7) % 2 == 0:
            # the stationary-list classes pair a list of stationary points with the list of all samples: a second
            # declared stationary point makes the position of a sample in one list differ from its position in the
            # other, which a positional `i > j` halving (or `i == j` skip) across the two lists depends on.
            # Structural comparison only (tagged peer), no draw from the plan's PRNG.
            st = next((o for o in b.ops if o["op"] == "stationary" and any(
                f["op"] == "func" and f["out"] == o.get("f") and f["cls"] in ("ConvexQGFunction", "RsiEbFunction")
                for f in b.ops)), None)
            if st is not None:
                k = b.ops.index(st) + 1
                b.ops[k:k] = [{"op": "stationary", "out": ["st2_xs", "st2_gs", "st2_fs"], "f": st["f"]}]
        info = {k: v for k, v in b.info.items() if isinstance(v, (str, int, float))}
        info["P"] = b.P
        mode = "tagged" if case in ("order", "order-resolve") else "real"
        if case == "param-twin":
            # templates whose leaf classes have a twin
            pass
        s = draw_solve(rng, b.P, "tau", peer_mode=mode, allow_mosek=False)
        s["cfg"]["mode"] = "dual"
        s["cfg"]["verbose"] = 0
        s["peer"]["solver"] = "CLARABEL"
        s["peer"]["force_solver"] = True
        plan = {"case": case, "base": list(b.ops), "solve": s, "info": info,
                "tag": "%s/%s/%s" % (case, b.info.get("template"), b.info.get("cls"))}
        if case == "route":
            alt, c = reroute(b.ops, info, rng)
            plan["alt"] = alt
            plan["alt2"] = None
            plan["ext_kind"] = None
            plan["case"] = "order-value"
            plan["tag"] = plan["tag"].replace("route", "same-samples-through-c*f" if c else "route-none")
        elif case == "param-twin":
            base2, alt, what = param_twin(b.ops, rng)
            if base2 is not None:
                plan["base"] = base2
            plan["alt"] = alt if alt is not None else shuffle_schedule(b.ops, rng)
            plan["alt2"] = None
            plan["ext_kind"] = None
            plan["case"] = "order-value"
            plan["tag"] = plan["tag"].replace("param-twin", "param-twin:" + str(what))
        elif case == "order-resolve":
            # the same declarations interleaved with an earlier solve: solve after a prefix of the (shuffled)
            # program, declare the rest, solve again; the last solve must see the same class rows as the program
            # that declares everything and solves once
            sched = shuffle_schedule(b.ops, rng)
            cut = rng.randrange(max(1, len(sched) // 3), len(sched))
            early = copy.deepcopy(s)
            early["out"] = "tau_early"
            early["nojudge"] = True
            plan["alt"] = sched[:cut] + [early] + sched[cut:]
            # more samples of the main function (and of a linear operator's transpose) after the early solve
            plan["alt2"] = None
            plan["ext_kind"] = None
            plan["case"] = "order"
            plan["tag"] = plan["tag"].replace("order-resolve", "order+early-solve")
        elif case in ("order", "order-value"):
            plan["alt"] = shuffle_schedule(b.ops, rng)
            plan["alt2"] = shuffle_schedule(b.ops, rng)
            plan["ext_kind"] = None
            fop = next((o for o in b.ops if o["op"] == "func" and o["cls"] in ("ConvexQGFunction", "RsiEbFunction")), None)
            if case == "order-value" and fop is not None and \
                    not any(o["op"] == "stationary" and o.get("f") == fop["out"] for o in b.ops):
                # these classes record a stationary point of their own at solve time when the user declared none:
                # declaring it (and not using it) is another route to the same samples
                k = b.ops.index(fop) + 1 + rng.randrange(len(b.ops) - b.ops.index(fop))
                plan["alt2"] = b.ops[:k] + [{"op": "stationary", "out": ["im_xs", "im_gs", "im_fs"],
                                             "f": fop["out"]}] + b.ops[k:]
                plan["tag"] += "/implicit-vs-declared-stationary-point"
        else:
            extra, kind = extension(b.ops, info, rng)
            plan["alt"] = list(b.ops) + extra
            plan["alt2"] = None
            plan["ext_kind"] = kind
        plan["opts"] = {"oracles": ["delivery", "pattern"]}
        return plan

    def legs(self, plan):
        tail = [plan["solve"], {"op": "check", "what": "class_descriptor"}]
        legs = {"base": {"ops": plan["base"] + tail, "opts": plan["opts"]},
                "alt": {"ops": plan["alt"] + tail, "opts": plan["opts"]}}
        if plan.get("alt2"):
            legs["alt2"] = {"ops": plan["alt2"] + tail, "opts": plan["opts"]}
        return legs

    def judged_legs(self, plan):
        return [k for k in ("base", "alt", "alt2") if k == "base" or plan.get(k)]

    def oplists(self, plan):
        return []

    def simplifications(self, plan):
        return []

    def plan_size(self, plan):
        return len(plan["base"])

    def judge(self, plan, res):
        viol = []
        legs = [k for k in ("base", "alt", "alt2") if k in res]
        outs = {k: (res[k].get("outcomes") or []) for k in legs}
        sol = {}
        for k in legs:
            n = len(plan["base"] if k == "base" else plan[k])
            sol[k] = outs[k][n] if len(outs[k]) > n else {}
        # a leg whose solve raised before anything reached the solver still has an outcome to compare, as long as
        # another leg of the same plan did reach the solver (the model is then known to be a legal one)
        reached = all(sol[k].get("ncalls") or sol[k].get("status") == "exc" for k in legs) and \
            any(sol[k].get("ncalls") for k in legs)
        if not reached:
            return [], {"nontrivial": False, "noverdict": True}
        if any(sol[k].get("spontaneous") for k in legs):
            return [], {"nontrivial": True, "noverdict": True}
        worst = 0.0
        inaccurate = False
        case = plan["case"]
        base = sol["base"]
        for k in legs[1:]:
            other = sol[k]
            if case == "order":
                da, db = res["base"]["obs"].get("descriptor"), res[k]["obs"].get("descriptor")
                if da is None or db is None or da.get("unlabelled") or db.get("unlabelled"):
                    continue
                if sorted(da["rows"]) != sorted(db["rows"]):
                    ra, rb = set(da["rows"]), set(db["rows"])
                    viol.append({"oracle": "C04/order", "signature": "class-rows-depend-on-declaration-order",
                                 "detail": {"only_first": sorted(ra - rb)[:2], "only_second": sorted(rb - ra)[:2],
                                            "n": [len(da["rows"]), len(db["rows"])]}})
                if sorted(da["lmis"]) != sorted(db["lmis"]):
                    viol.append({"oracle": "C04/order", "signature": "class-lmis-depend-on-declaration-order",
                                 "detail": {}})
            else:
                if k == "alt2" and "implicit-vs-declared" in plan.get("tag", "") and \
                        base.get("sizes") != other.get("sizes"):
                    viol.append({"oracle": "C04/value", "signature": "class-rows-depend-on-who-declared-the-stationary-point",
                                 "detail": {"implicit": base.get("sizes"), "declared": other.get("sizes")}})
                okb = base.get("status") == "ok"
                oko = other.get("status") == "ok"
                vb, vo = base.get("value"), other.get("value")
                cls = plan["info"].get("cls")
                if okb and oko and (vb is None) != (vo is None):
                    if case == "order-value" or cls not in NECESSARY_ONLY or vb is None:
                        viol.append({"oracle": "C04/value", "signature": "finite-vs-no-value:" + case,
                                     "detail": {"base": vb, "other": vo, "ext": plan.get("ext_kind")}})
                    continue
                if not (okb and oko) or vb is None:
                    if okb != oko:
                        what = plan.get("tag", "").split("/")[0]
                        what = (":" + what.split(":", 1)[1]) if what.startswith("param-twin:") else ""
                        viol.append({"oracle": "C04/value", "signature": "solve-outcome-depends-on:" + case + ":" +
                                     str(base.get("exc_type") or other.get("exc_type")) + what,
                                     "detail": {"base": base.get("exc_type"), "other": other.get("exc_type"),
                                                "msg": (base.get("msg") or other.get("msg") or "")[:120]}})
                    continue
                if base.get("accurate") is False or other.get("accurate") is False:
                    # one of the two REAL answers is not accurate to the tolerance of the comparison (status other
                    # than "optimal", or the solver's own Gram matrix not PSD to 1e-6 - same rule as O-PRIMAL):
                    # the difference measures the solver on a badly scaled instance, not the declaration order
                    inaccurate = True
                    continue
                a, b = float.fromhex(vb), float.fromhex(vo)
                # 1e-3 where the construction makes the SDP non-strictly feasible: an aliased sample (equality
                # ||q - x||^2 <= 0), or a second stationary sample of the quadratic class, which its LMI forces onto
                # the minimiser the class created itself (stationary point declared through c * f)
                degenerate = plan.get("ext_kind") == "aliased_sample" or (
                    cls == "SmoothStronglyConvexQuadraticFunction" and "same-samples-through-c*f" in plan.get("tag", ""))
                tol = 1e-3 if degenerate else 1e-4
                err = (b - a) / (1.0 + abs(a))
                if case == "order-value":
                    worst = max(worst, abs(err))
                    if abs(err) > tol:
                        viol.append({"oracle": "C04/value", "signature": "value-depends-on-declaration-order",
                                     "detail": {"first": a, "second": b}})
                else:
                    if cls in NECESSARY_ONLY or cls == "composite":
                        if err > tol:
                            viol.append({"oracle": "C04/extension", "signature": "value-increases-when-samples-are-added",
                                         "detail": {"base": a, "extended": b, "ext": plan["ext_kind"], "cls": cls}})
                    else:
                        worst = max(worst, abs(err))
                        if abs(err) > tol:
                            viol.append({"oracle": "C04/extension",
                                         "signature": "value-changes-under-sample-extension:" + str(cls),
                                         "detail": {"base": a, "extended": b, "ext": plan["ext_kind"]}})
        seen, out = set(), []
        for v in viol:
            if v["signature"] not in seen:
                seen.add(v["signature"])
                out.append(v)
        return out, {"nontrivial": True, "noverdict": inaccurate and not out, "residuals": {"C04/value": worst}}

    def accept_oracle(self, oracle):
        return oracle.startswith("C04") or oracle == "O-DELIVERY"


PROP = C04()
