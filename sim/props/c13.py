"""C13 - solving again gives fresh, consistent answers."""
import copy

from sim import templates
from sim.props.base import Prop, draw_solve

W13 = {"gd": 3, "pgd": 3, "bcd": 3, "linear": 3, "gd_qg": 3, "ppa": 1, "operator": 1, "fw": 1, "inexact_gd": 1,
       "linesearch": 1, "halpern": 1, "bregman": 1}


def held_handles(b):
    hs = list(b.points) + list(b.info.get("metrics") or []) + list(b.conlist) + list(b.psds)
    # points without any leaf: the zero gradient returned with a stationary point
    hs += [o["out"][1] for o in b.ops if o["op"] == "stationary"]
    return [h for h in hs if h]


class C13(Prop):
    id = "C13"
    level = "exploration"
    RUNS = {"quick": 1000, "thorough": 10000}
    BUDGET = {"quick": 85, "thorough": 900}
    ORACLES = ("O-FRESH", "O-ATTR", "O-CERT", "O-ATTR-PRIMAL", "O-DELIVERY", "C13")
    RULE = ("one template model, then 2-5 rounds of [edit in {none, replace / rescale the initial condition, add a "
            "metric, add an LMI, add a function-level constraint}; option change in {primal|dual, heuristic, transport, "
            "solver, verbose}; optionally a failing solve in between (scripted status / raise); solve; evaluation of "
            "held handles created before the first solve, between solves and after]; twin per round = the same model "
            "with the edits so far built in a pristine fork and solved once with that round's options; oracles: value "
            "= twin's (REAL), sizes at the seam = twin's exactly (no growth), every held handle evaluates to its "
            "denotation at the latest solution (TAGGED: tags of different rounds are disjoint), multipliers / "
            "certificate / delivery of the latest solve; non-trivial = at least two solves reached the solver; "
            "distinct = event-log digests")
    ASSUMPTIONS = ("evaluations right after a failed round are not judged",
                   "REAL value comparison at 1e-4 relative (CLARABEL)",
                   "the MOSEK transport is a stand-in written from the documented API")
    COMPONENTS = {"real": ["every line of PEPit", "cvxpy modelling layer", "CLARABEL in REAL runs"],
                  "stub": ["solver in TAGGED runs", "mosek package (stand-in)", "licence state", "sys.stdout"]}

    def generate(self, rng, tier, idx):
        b = templates.build_model(rng, weights=W13, n=rng.choice([1, 2, 2, 3]))
        mode = rng.choice(["tagged", "tagged", "real"])
        model = list(b.ops)
        rounds = []
        nr = rng.choice([2, 2, 3, 4, 5])
        init = next((o["out"] for o in b.ops if o["op"] == "cons" and o.get("how") == "initial"), None)
        init_lhs = next((o for o in b.ops if o["op"] == "cons" and o.get("how") == "initial"), None)
        held = held_handles(b)
        nedit = 0
        for r in range(nr):
            edit = []
            kind = rng.choice(["none", "none", "rescale", "metric", "lmi", "func_cons", "redundant", "part_cons",
                               "more_samples", "late_cons", "metric_replace"]) if r > 0 else "none"
            if kind == "rescale" and init is not None:
                # replace the initial condition by a rescaled copy of itself
                o = copy.deepcopy(init_lhs)
                nedit += 1
                o["out"] = "ed_c%d" % nedit
                edit.append({"op": "edit", "P": b.P, "what": "remove_constraint", "c": init})
                # keep the same sides; a looser but equivalent-in-form bound:  2*lhs <= 2*rhs is emitted as lhs' <= rhs'
                edit.append(o)
                init = o["out"]
            elif kind == "metric" and b.info.get("metrics"):
                nedit += 1
                e = "ed_e%d" % nedit
                edit.append({"op": "elin", "out": e, "terms": [[b.info["metrics"][0], float("%.3g" % rng.uniform(1.0, 2.0))]],
                             "const": float("%.2g" % rng.uniform(0, 0.2))})
                edit.append({"op": "metric", "P": b.P, "e": e})
                held.append(e)
            elif kind == "lmi" and b.info.get("metrics"):
                nedit += 1
                s = "ed_s%d" % nedit
                M = "ed_M%d" % nedit
                edit.append({"op": "newexpr", "out": s})
                edit.append({"op": "psd", "out": M, "entries": [[b.info["metrics"][0], s], [s, 1.0]], "target": b.P})
                held += [M]
            elif kind == "func_cons" and b.info.get("main_f") and b.points:
                nedit += 1
                e = "ed_q%d" % nedit
                edit.append({"op": "sq", "out": e, "a": rng.choice(b.points)})
                edit.append({"op": "cons", "out": "ed_fc%d" % nedit, "lhs": e, "rel": "<=", "rhs": 5e3,
                             "target": b.info["main_f"]})
                held += [e, "ed_fc%d" % nedit]
            elif kind == "late_cons" and b.points:
                # built and evaluated after a solve it was not part of, then added to the model
                nedit += 1
                e, c = "ed_le%d" % nedit, "ed_lc%d" % nedit
                edit.append({"op": "sq", "out": e, "a": rng.choice(b.points)})
                edit.append({"op": "cons", "out": c, "lhs": e, "rel": "<=", "rhs": 8.5e3})
                edit.append({"op": "eval", "h": c})
                edit.append({"op": "attach", "c": c, "target": b.P})
                held += [c, c, e]
            elif kind == "metric_replace" and b.info.get("metrics"):
                nedit += 1
                e = "ed_mr%d" % nedit
                edit.append({"op": "edit", "P": b.P, "what": "clear_metrics"})
                edit.append({"op": "elin", "out": e, "terms": [[b.info["metrics"][0], float("%.3g" % rng.uniform(0.4, 1.6))]]})
                edit.append({"op": "metric", "P": b.P, "e": e})
                held.append(e)
            elif kind == "part_cons" and b.points and b.parts:
                nedit += 1
                e = "ed_p%d" % nedit
                edit.append({"op": "sq", "out": e, "a": rng.choice(b.points)})
                edit.append({"op": "cons", "out": "ed_pc%d" % nedit, "lhs": e, "rel": "<=", "rhs": 6e3,
                             "target": b.parts[0]})
                held += [e, "ed_pc%d" % nedit]
            elif kind == "more_samples" and b.points and b.info.get("main_f"):
                nedit += 1
                q = "ed_q%d" % nedit
                edit.append({"op": "newpoint", "out": q})
                edit.append({"op": "oracle", "out": ["ed_g%d" % nedit, "ed_v%d" % nedit], "f": b.info["main_f"],
                             "x": rng.choice(list(b.points) + [q])})
                if b.info.get("cls") == "LinearOperator":
                    edit.append({"op": "gradient", "out": "ed_gt%d" % nedit, "f": b.info["main_f"] + "T", "x": q})
                    edit.append({"op": "sq", "out": "ed_qe%d" % nedit, "a": q})
                    edit.append({"op": "cons", "out": "ed_qc%d" % nedit, "lhs": "ed_qe%d" % nedit, "rel": "<=",
                                 "rhs": 1.0, "target": b.P})
            elif kind == "redundant" and b.points:
                nedit += 1
                e = "ed_r%d" % nedit
                edit.append({"op": "sq", "out": e, "a": rng.choice(b.points)})
                edit.append({"op": "cons", "out": "ed_rc%d" % nedit, "lhs": e, "rel": "<=", "rhs": 7e3, "target": b.P})
                held += [e, "ed_rc%d" % nedit]
            failing = None
            if r > 0 and rng.random() < 0.25:
                failing = draw_solve(rng, b.P, "fail%d" % r, peer_mode=mode)
                kindf = rng.choice(["script", "script", "script", "interrupt", "stdout"])
                if kindf == "script":
                    failing["peer"]["script"] = {"1": rng.choice([{"action": "raise"},
                                                                  {"action": "status", "status": "infeasible"},
                                                                  {"action": "status", "status": "unbounded"}])}
                elif kindf == "interrupt":
                    # the user hits Ctrl-C somewhere in the middle of a solve of this very object, then solves again
                    if rng.random() < 0.5:
                        failing["faults"] = {"interrupt": {"at": int(10 ** rng.uniform(0, 3.9))}}
                    else:
                        failing["faults"] = {"interrupt": {"at": int(10 ** rng.uniform(0, 2.3)), "fn": rng.choice(
                            ["add_class_constraints", "_solve_with_wrapper", "_eval_points_and_function_values",
                             "check_feasibility", "send_constraint_to_solver", "add_partition_constraints",
                             "assign_dual_values", "add_point", "stationary_point"])}}
                    failing["crash"] = True
                else:
                    failing["cfg"]["verbose"] = rng.choice([1, 2])
                    failing["faults"] = {"stdout": {"at": rng.randrange(1, 60), "errno": rng.choice(["EPIPE", "ENOSPC"])}}
                    failing["crash"] = True
                failing["nojudge"] = True
            s = draw_solve(rng, b.P, "tau%d" % r, peer_mode=mode, allow_heuristic=(rng.random() < 0.3))
            if mode == "real":
                s["peer"]["solver"] = "CLARABEL"
                s["peer"]["force_solver"] = True
                s["cfg"]["kwargs"] = {"solver": "CLARABEL"}
                if s["cfg"].get("heuristic"):
                    s["cfg"]["eig"] = 0.05
            evals = []
            if rng.random() < 0.8:
                for h in rng.sample(held, min(len(held), rng.choice([2, 4, 6]))):
                    evals.append({"op": "eval", "h": h})
                zero = [o["out"][1] for o in b.ops if o["op"] == "stationary"]
                if zero and rng.random() < 0.6:
                    evals.append({"op": "eval", "h": rng.choice(zero)})     # a point without any leaf
                # objects created between solves
                if b.points and rng.random() < 0.5:
                    nedit += 1
                    nx = "ed_x%d" % nedit
                    evals.append({"op": "plin", "out": nx, "terms": [[rng.choice(b.points), 1.0],
                                                                    [rng.choice(b.points), -0.5]]})
                    evals.append({"op": "eval", "h": nx})
                    held.append(nx)
            fail_evals = []
            if failing is not None and not failing.get("crash") and held:
                # what the user reads right after the solve that found no value: never numbers of an earlier solve
                for h in rng.sample(held, min(len(held), 3)):
                    fail_evals.append({"op": "eval", "h": h})
                for c in [h for h in held if h in b.conlist][:2]:
                    fail_evals.append({"op": "eval_dual", "h": c})
            post_fail_edit = []
            if r == 0 and init is not None and rng.random() < 0.15 and \
                    not any(o_["op"] == "attach" and o_.get("c") == init for o_ in b.ops):
                # (a constraint that is also registered with another owner stays in the model when the PEP drops it)
                # the very first solve of the object is a dimension reduction that dies at its second solver call
                # (problem 1 was solved: multipliers assigned, no primal solution stored); the user then replaces the
                # initial condition and solves: the replaced constraint is not part of any completed solve
                failing = draw_solve(rng, b.P, "fail0", peer_mode=mode)
                failing["cfg"]["heuristic"] = rng.choice(["trace", "logdet1", "logdet2"])
                failing["cfg"]["eig"] = 0.05
                if rng.random() < 0.6:
                    failing["peer"]["script"] = {"2": {"action": "raise"}}
                else:
                    failing["faults"] = {"interrupt": {"at": int(10 ** rng.uniform(0, 1.5)), "fn": "heuristic"}}
                    failing["crash"] = True
                failing["nojudge"] = True
                fail_evals = []
                o = copy.deepcopy(init_lhs)
                nedit += 1
                o["out"] = "ed_c%d" % nedit
                post_fail_edit = [{"op": "edit", "P": b.P, "what": "remove_constraint", "c": init}, o]
                evals.append({"op": "eval_dual", "h": init, "_expect_raise": True})
                init = o["out"]
            rounds.append({"edit": edit, "failing": failing, "fail_evals": fail_evals, "solve": s, "evals": evals,
                           "post_fail_edit": post_fail_edit})
        return {"model": model, "rounds": rounds, "mode": mode,
                "tag": "%s/%s/r%d/%s" % (b.info.get("template"), b.info.get("cls"), nr, mode),
                "opts": {"oracles": ["fresh", "attr", "cert", "attr_primal", "delivery"]}}

    def _main_ops(self, plan):
        ops = list(plan["model"])
        marks = []
        for rd in plan["rounds"]:
            ops += rd["edit"]
            if rd.get("failing"):
                ops.append(rd["failing"])
                ops += rd.get("fail_evals") or []
            ops += rd.get("post_fail_edit") or []
            marks.append(len(ops))
            ops.append(rd["solve"])
            ops += rd["evals"]
        return ops, marks

    def legs(self, plan):
        ops, marks = self._main_ops(plan)
        legs = {"main": {"ops": ops, "opts": plan["opts"]}}
        acc = list(plan["model"])
        for r, rd in enumerate(plan["rounds"]):
            acc = acc + rd["edit"] + (rd.get("post_fail_edit") or [])
            legs["twin%d" % r] = {"ops": acc + [rd["solve"]], "opts": {}}
        return legs

    def judged_legs(self, plan):
        return ["main"]

    def oplists(self, plan):
        return [["rounds"], ["model"]]

    def simplifications(self, plan):
        for r, rd in enumerate(plan["rounds"]):
            if rd.get("failing"):
                c = copy.deepcopy(plan)
                c["rounds"][r]["failing"] = None
                c["rounds"][r]["fail_evals"] = []
                yield c
            if rd["evals"]:
                c = copy.deepcopy(plan)
                c["rounds"][r]["evals"] = []
                yield c
            if rd["edit"]:
                c = copy.deepcopy(plan)
                c["rounds"][r]["edit"] = []
                yield c
            for key in ("heuristic",):
                if rd["solve"]["cfg"].get(key):
                    c = copy.deepcopy(plan)
                    c["rounds"][r]["solve"]["cfg"].pop(key)
                    yield c
            if rd["solve"]["cfg"].get("verbose"):
                c = copy.deepcopy(plan)
                c["rounds"][r]["solve"]["cfg"]["verbose"] = 0
                yield c
            if rd["solve"]["cfg"].get("wrapper", "cvxpy").lower() != "cvxpy":
                c = copy.deepcopy(plan)
                c["rounds"][r]["solve"]["cfg"]["wrapper"] = "cvxpy"
                c["rounds"][r]["solve"]["env"] = {"mosek": "absent"}
                yield c

    def plan_size(self, plan):
        return len(plan["model"]) + sum(len(r["edit"]) + len(r["evals"]) + 1 for r in plan["rounds"])

    def judge(self, plan, res):
        ops, marks = self._main_ops(plan)
        main = res["main"]
        outs = main.get("outcomes") or []
        viol = []
        reached = 0
        residual = 0.0
        crashed = False
        for r, (rd, mi) in enumerate(zip(plan["rounds"], marks)):
            if rd.get("failing") and rd["failing"].get("crash"):
                crashed = True      # a solve of this object was abandoned at an arbitrary line
            nfe = len(rd.get("fail_evals") or [])
            if nfe and mi - nfe - 1 >= 0 and mi <= len(outs):
                fo = outs[mi - nfe - 1]
                failed = fo.get("status") == "exc" or fo.get("value") is None
                if failed and fo.get("ncalls", 0) == 1:      # the solver was reached and found no value
                    for op_, o_ in zip(rd["fail_evals"], outs[mi - nfe:mi]):
                        if o_.get("status") == "ok" and not o_.get("leafless"):
                            viol.append({"oracle": "C13/fresh", "signature": "%s-returns-numbers-of-an-earlier-solve-after-a-solve-that-found-no-value" % op_["op"],
                                         "detail": {"round": r, "h": op_["h"], "failing": fo.get("exc_type") or "None"}})
                            break
            if mi >= len(outs):
                break
            x = outs[mi]
            tw = (res["twin%d" % r].get("outcomes") or [{}])[-1]
            if x.get("ncalls"):
                reached += 1
            if x.get("spontaneous") or tw.get("spontaneous"):
                continue
            # the twin defines what a newly built equivalent model does
            if tw.get("status") == "ok" and tw.get("value") is not None:
                if x.get("status") != "ok":
                    viol.append({"oracle": "C13/resolve", "signature": "re-solve-raises-where-fresh-model-solves:" +
                                 str(x.get("exc_type")), "detail": {"round": r, "msg": x.get("msg")}})
                    continue
                if x.get("value") is None:
                    viol.append({"oracle": "C13/resolve", "signature": "re-solve-returns-none-where-fresh-model-solves",
                                 "detail": {"round": r}})
                    continue
                # (d) no growth: sizes at the seam, exactly
                if x.get("sizes") != tw.get("sizes") and crashed:
                    # after a solve abandoned mid-way a leaf created just before the crash may survive (one unused
                    # column): reported as a note, the statement's "amount of data does not grow with the number of
                    # solves" is judged on histories of completed solves
                    pass
                elif x.get("sizes") != tw.get("sizes"):
                    sig = "seam-size-differs-from-fresh-model"
                    detail = {"round": r, "resolve": x.get("sizes"), "fresh": tw.get("sizes")}
                    k5 = _k5_predicate(x.get("sizes"), tw.get("sizes"), r, plan, outs, marks)
                    if k5:
                        sig = "dimF-grows-by-one-objective-leaf-per-earlier-solve"
                    viol.append({"oracle": "C13/growth", "signature": sig, "detail": detail})
                # (a) value
                if plan["mode"] == "real":
                    a, b_ = float.fromhex(x["value"]), float.fromhex(tw["value"])
                    err = abs(a - b_) / (1.0 + abs(b_))
                    residual = max(residual, err)
                    if err > 1e-4:
                        viol.append({"oracle": "C13/value", "signature": "value-differs-from-fresh-model",
                                     "detail": {"round": r, "resolve": a, "fresh": b_}})
            elif tw.get("status") == "exc" and x.get("status") == "ok" and x.get("value") is not None:
                pass
        # an object that is not part of the model any more (removed before the latest solve) has no multiplier
        last_solve_ok = False
        for op_, o_ in zip(ops, outs):
            if op_["op"] == "solve":
                # (judged after a solve that completed: a solve that raised before doing anything, e.g. on an unknown
                # wrapper name that happens to be an installed package, forgets nothing)
                last_solve_ok = o_.get("status") == "ok" and o_.get("value") is not None
            if op_.get("_expect_raise") and o_.get("status") == "ok" and last_solve_ok:
                viol.append({"oracle": "C13/fresh", "signature": "%s-of-an-object-removed-from-the-model-returns-a-number" % op_["op"],
                             "detail": {"h": op_["h"], "value": str(o_.get("value"))[:60]}})
        seen, out = set(), []
        for v in viol:
            if v["signature"] not in seen:
                seen.add(v["signature"])
                out.append(v)
        return out, {"nontrivial": reached >= 2, "noverdict": reached < 2, "residuals": {"C13/value": residual}}


def _parse_sizes(s):
    import ast
    try:
        return [ast.literal_eval(x) for x in s]
    except Exception:
        return None


def _k5_predicate(a, b, r, plan, outs, marks):
    """sizes differ only in dim F, by exactly the number of earlier solver-reaching solves."""
    A, B = _parse_sizes(a or []), _parse_sizes(b or [])
    if not A or not B or len(A) != len(B):
        return False
    for x, y in zip(A, B):
        if (x[0], x[2], x[3]) != (y[0], y[2], y[3]):
            return False
        if x[1] - y[1] <= 0 or x[1] - y[1] > 12:
            return False
    return True


PROP = C13()
