"""C15 - block partitions behave as orthogonal coordinate-block projections."""
from sim.props.base import Prop, draw_solve


def gen_blocks(rng):
    ops = [{"op": "pep", "out": "P"}]
    n = [0]

    def nm(b):
        n[0] += 1
        return "%s%d" % (b, n[0])

    parts = []
    for _ in range(rng.choice([1, 1, 2, 3])):
        B = nm("B")
        d = rng.choice([1, 2, 2, 3, 4, 5])
        ops.append({"op": "partition", "out": B, "P": "P", "d": d})
        parts.append((B, d))
    points = []
    labels = rng.choice([None, None, ["x"], ["x", "y"], ["Point_0", "Point_1"], ["block_0", "block_1", "block_2"]])
    for _ in range(rng.choice([1, 2, 3])):
        x = nm("x")
        ops.append({"op": "point", "out": x, "P": "P"})
        if labels:
            ops[-1]["name"] = rng.choice(labels)       # names are free labels: they may repeat
        points.append(x)
    funcs = []
    if rng.random() < 0.6:
        B, d = rng.choice(parts)
        f = nm("f")
        ops.append({"op": "func", "out": f, "P": "P", "cls": "BlockSmoothConvexFunction",
                    "params": {"partition": "@" + B, "L": [float("%.2g" % rng.uniform(0.5, 2)) for _ in range(d)]}})
        funcs.append((f, B, d))
    if rng.random() < 0.3:
        f = nm("f")
        ops.append({"op": "func", "out": f, "P": "P", "cls": "SmoothConvexFunction", "params": {"L": 1.0}})
        funcs.append((f, None, None))
    decomposed = []
    for _ in range(rng.choice([3, 6, 10, 16])):
        c = rng.random()
        if c < 0.5:
            B, d = rng.choice(parts)
            x = rng.choice(points)
            k = rng.randrange(d)
            xb = nm("xb")
            ops.append({"op": "block", "out": xb, "B": B, "x": x, "k": k})
            decomposed.append((B, x))
            if rng.random() < 0.3:
                points.append(xb)
        elif c < 0.58 and len(points) >= 2:
            # a point written on the fly and decomposed at once: nobody holds the point itself
            B, d = rng.choice(parts)
            a, b = rng.sample(points, 2)
            xb = nm("xt")
            ops.append({"op": "block_temp", "out": xb, "B": B, "k": rng.randrange(d),
                        "terms": [[a, 1.0], [b, float("%.2g" % rng.uniform(-1, 1))]]})
            if rng.random() < 0.3:
                points.append(xb)
        elif c < 0.65 and len(points) >= 2:
            a, b = rng.sample(points, 2)
            x = nm("y")
            ops.append({"op": "plin", "out": x, "terms": [[a, 1.0], [b, float("%.2g" % rng.uniform(-1, 1))]]})
            points.append(x)
        elif c < 0.75:
            x0 = rng.choice(points)
            x = nm("a")
            ops.append({"op": "plin", "out": x, "terms": [[x0, 1.0]]})
            points.append(x)
        elif c < 0.95 and funcs:
            f, B, d = rng.choice(funcs)
            x = rng.choice(points)
            g = nm("g")
            ops.append({"op": "gradient", "out": g, "f": f, "x": x})
            if labels and rng.random() < 0.3:
                ops[-1]["name"] = rng.choice(labels)
            points.append(g)
        else:
            x = nm("q")
            ops.append({"op": "newpoint", "out": x})
            points.append(x)
    return ops, parts, points, funcs


class C15(Prop):
    id = "C15"
    level = "exploration"
    RUNS = {"quick": 3000, "thorough": 40000}
    BUDGET = {"quick": 75, "thorough": 900}
    ORACLES = ("C15", "O-DELIVERY", "O-IMMUT")
    RULE = ("seeded histories over 1-3 partitions (d in 1..5): get_block on leaf points, combinations, aliased points "
            "and gradients of block-smooth functions in any order and repeatedly, some points never decomposed; then a "
            "TAGGED solve (once or twice) on the cvxpy or stand-in MOSEK transport; invariants after every get_block: "
            "blocks sum back to the point, asking again returns the identical object, d = 1 is the identity; user "
            "constraints attached to a partition before or between solves; at every "
            "solve the relations delivered at the seam for each partition are exactly {<x^(k), y^(l)> = 0 : x, y "
            "decomposed, k != l} (reference model computed by the harness from the blocks it obtained) and nothing "
            "else, and they hold on a concrete coordinate partition of R^n with the blocks bound to true projections; "
            "non-trivial = at least one point decomposed in a partition with d >= 2 and a solve captured")
    ASSUMPTIONS = ("set semantics for the delivered relations (multiplicity is C05 / C13's business)",
                   "functionals compared at two generic probes")
    COMPONENTS = {"real": ["every line of PEPit that is executed (block_partition.py, block-smooth class, pep.py, wrappers)"],
                  "stub": ["solver (tagged answers)", "mosek package (stand-in)", "sys.stdout"]}

    def generate(self, rng, tier, idx):
        ops, parts, points, funcs = gen_blocks(rng)
        # a trivial bounded model around it so that a solve is possible
        ops.append({"op": "sq", "out": "m_e", "a": points[0]})
        ops.append({"op": "cons", "out": "m_c", "lhs": "m_e", "rel": "<=", "rhs": 1.0, "target": "P", "how": "initial"})
        ops.append({"op": "metric", "P": "P", "e": "m_e"})
        for k in range(rng.choice([1, 1, 2, 3])):
            if rng.random() < (0.35 if k == 0 else 0.5):
                # a constraint the user attaches to a partition directly (BlockPartition.add_constraint), before the
                # first solve or between two solves: it travels with the partition's own relations
                B, d = rng.choice(parts)
                ops.append({"op": "sq", "out": "u_e%d" % k, "a": rng.choice(points)})
                ops.append({"op": "cons", "out": "u_c%d" % k, "lhs": "u_e%d" % k, "rel": "<=",
                            "rhs": float("%.3g" % rng.uniform(2, 9)), "target": B})
            s = draw_solve(rng, "P", "tau%d" % k, peer_mode="tagged", allow_heuristic=False)
            ops.append(s)
            ops.append({"op": "check", "what": "partition_relations"})
        return {"ops": ops, "tag": "parts%d" % len(parts),
                "opts": {"oracles": ["blocks", "immut", "delivery", "partition_relations"]}}

    def judge(self, plan, res):
        reach = res["main"].get("reach") or {}
        nontrivial = reach.get("blocks_checked", 0) > 0 and reach.get("partition_relations_checked", 0) > 0
        return [], {"nontrivial": nontrivial, "noverdict": not nontrivial}

    def accept_oracle(self, oracle):
        return oracle.startswith("C15") or oracle in ("O-IMMUT", "O-DELIVERY")


PROP = C15()
