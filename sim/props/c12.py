"""C12 - a model's result does not depend on what happened earlier in the process."""
import copy

from sim import templates
from sim.props.base import Prop, draw_solve

BIG = {"bcd": 3, "pgd": 2, "linear": 2, "gd": 2, "gd_qg": 1, "fw": 1, "bregman": 1, "inexact_prox": 1}


def observe_ops(rng, b, k=6):
    """Observation ops on B's handles: primal / dual values, names and counters, dual tables."""
    ops = []
    pts = list(b.points)
    for p in rng.sample(pts, min(len(pts), 3)):
        ops.append({"op": "eval", "h": p})
        ops.append({"op": "attr", "h": p, "attrs": ["name", "counter"]})
    for c in rng.sample(b.conlist, min(len(b.conlist), 2)):
        ops.append({"op": "eval", "h": c})
        ops.append({"op": "eval_dual", "h": c})
        ops.append({"op": "attr", "h": c, "attrs": ["name", "counter"]})
    for m in b.psds:
        ops.append({"op": "eval", "h": m})
        ops.append({"op": "eval_dual", "h": m})
        ops.append({"op": "attr", "h": m, "attrs": ["name", "counter"]})
    for e in (b.info.get("metrics") or [])[:2]:
        ops.append({"op": "eval", "h": e})
    for f in b.funcs:
        ops.append({"op": "attr", "h": f, "attrs": ["name", "counter"]})
        ops.append({"op": "class_duals", "f": f})
    for B in b.parts:
        ops.append({"op": "attr", "h": B, "attrs": ["counter"]})
    ops.append({"op": "attr", "h": b.P, "attrs": ["counter", "wrapper_name"]})
    return ops


def history_model(rng, k, tier, like=None):
    """One earlier model A_k with its ending.  `like` = (template, n, seed): a model of the same shape as B, so
    that every work area / registry the earlier model leaves behind has exactly the size B needs."""
    big = rng.random() < 0.6
    if like is not None:
        import random as _random
        b = templates.build_model(_random.Random(like[2]), prefix="h%d_" % k, template=like[0], n=like[1],
                                  decorations=[])
    else:
        b = templates.build_model(rng, prefix="h%d_" % k, weights=BIG if big else None,
                                  n=rng.choice([3, 4, 5]) if big else None,
                                  decorations=[rng.choice(templates.DECORATIONS) for _ in range(rng.choice([1, 2, 3]))]
                                  if big else None)
    ops = list(b.ops)
    ending = rng.choice(["built", "solved", "solved", "failed", "interrupted", "interrupted", "stdout", "abandoned"])
    if like is not None and rng.random() < 0.6:
        ending = "interrupted-in-encoder"
    if ending == "abandoned":
        cut = rng.randrange(1, len(ops) + 1)
        ops = ops[:cut]
        return ops, ending
    if ending == "built":
        return ops, ending
    s = draw_solve(rng, b.P, "h%d_tau" % k, peer_mode=rng.choice(["tagged", "tagged", "tagged", "real"]),
                   allow_heuristic=True)
    if ending == "failed":
        kind = rng.randrange(3)
        if kind == 0:
            s["peer"]["script"] = {str(rng.choice([1, 1, 2])): rng.choice([
                {"action": "raise"}, {"action": "status", "status": "infeasible"},
                {"action": "status", "status": "unbounded"}, {"action": "status", "status": "user_limit"}])}
        elif kind == 1:
            s["cfg"]["wrapper"] = "mosek"
            s["env"] = {"mosek": "present", "licence": {"expire_after_checks": 1}}
        else:
            s["cfg"]["mode"] = "neither"     # invalid option: raises after the solve
    elif ending == "interrupted-in-encoder":
        # abandoned in the middle of translating an expression for the solver (work areas half written)
        s["cfg"]["wrapper"] = rng.choice(["cvxpy", "cvxpy", "mosek"])
        s["env"] = {"mosek": "present"}
        s["faults"] = {"interrupt": {"at": int(10 ** rng.uniform(0.5, 2.6)), "fn": rng.choice(
            ["expression_to_matrices", "expression_to_matrices", "expression_to_sparse_matrices",
             "_expression_to_solver", "send_constraint_to_solver"])}}
    elif ending == "interrupted":
        if rng.random() < 0.5:
            at = int(10 ** rng.uniform(0, 3.9))
            s["faults"] = {"interrupt": {"at": at}}
        else:
            from sim.props.base import INTERRUPT_TARGETS
            fn = rng.choice(INTERRUPT_TARGETS + ["add_point", "eval", "expression_to_matrices", "_expression_to_solver"])
            s["faults"] = {"interrupt": {"at": int(10 ** rng.uniform(0, 2.3)), "fn": fn}}
    elif ending == "stdout":
        s["cfg"]["verbose"] = rng.choice([1, 2])
        s["faults"] = {"stdout": {"at": rng.randrange(1, 70), "errno": rng.choice(["EPIPE", "ENOSPC"])}}
    if "interrupt" in (s.get("faults") or {}) and rng.random() < 0.25:
        s["faults"]["interrupt"]["exc"] = "MemoryError"     # a failing allocation instead of Ctrl-C
    ops.append(s)
    if rng.random() < 0.4:
        # the session keeps using some of the old model's objects afterwards
        for p in rng.sample(b.points, min(2, len(b.points))):
            ops.append({"op": "eval", "h": p})
    return ops, ending


def orphan_ops(rng):
    """Objects created while no PEP exists yet (a session that plays with the DSL before its first `PEP()`)."""
    ops = []
    pts = []
    for i in range(rng.choice([1, 2, 3])):
        ops.append({"op": "newpoint", "out": "o_p%d" % i})
        pts.append("o_p%d" % i)
    if rng.random() < 0.6:
        ops.append({"op": "newexpr", "out": "o_e0"})
    if rng.random() < 0.7:
        cls, params = rng.choice([("SmoothConvexFunction", {"L": 1.0}), ("ConvexFunction", {}),
                                  ("SmoothStronglyConvexFunction", {"mu": 0.1, "L": 1.0}),
                                  ("LipschitzOperator", {"L": 1.0})])
        ops.append({"op": "ofunc", "out": "o_f", "cls": cls, "params": params})
        if rng.random() < 0.7:
            ops.append({"op": "gradient", "out": "o_g", "f": "o_f", "x": pts[0]})
            pts.append("o_g")
    if len(pts) >= 2 and rng.random() < 0.5:
        ops.append({"op": "plin", "out": "o_q", "terms": [[pts[0], 1.0], [pts[1], -0.5]]})
        ops.append({"op": "sq", "out": "o_s", "a": "o_q"})
    if rng.random() < 0.3:
        ops.append({"op": "opartition", "out": "o_B", "d": rng.choice([2, 3])})
    return ops


ENUM_VARIANTS = [("gd", 1, 0, "cvxpy", []), ("gd", 1, 1, "cvxpy", ["lmi_sym"]), ("pgd", 1, 1, "cvxpy", ["lmi_func"]),
                 ("bcd", 1, 0, "cvxpy", []), ("gd_qg", 1, 0, "mosek", []), ("linear", 1, 2, "mosek", ["part_cons"]),
                 ("gd", 2, 0, "cvxpy", ["extra_metric"]), ("operator", 1, 1, "mosek", ["eq_cons"])]
_ENUM_CACHE = {}


def enum_history(variant):
    """A fixed small earlier model whose solve will be interrupted at an enumerated line event."""
    import random as _random
    tpl, n, verbose, transport, deco = ENUM_VARIANTS[variant]
    rng = _random.Random(1000 + variant)
    b = templates.build_model(rng, prefix="h0_", template=tpl, n=n, decorations=list(deco), names=False)
    s = {"op": "solve", "P": b.P, "out": "h0_tau", "cfg": {"wrapper": transport, "mode": "dual", "verbose": verbose,
                                                          "kwargs": {}},
         "peer": {"mode": "tagged", "tagseed": 77 + variant},
         "env": {"mosek": "present"} if transport == "mosek" else {"mosek": "absent"}}
    return list(b.ops), s


def enum_total(variant):
    """Number of PEPit line events of the variant's solve (measured once per process in a counting leg)."""
    if variant not in _ENUM_CACHE:
        from sim import runner
        ops, s = enum_history(variant)
        s = dict(s)
        s["count_lines"] = True
        r = runner.run_leg_forked({"ops": ops + [s], "opts": {}})
        n = None
        for o in r.get("outcomes") or []:
            if o.get("line_events"):
                n = o["line_events"]
        _ENUM_CACHE[variant] = n or 1
    return _ENUM_CACHE[variant]


class C12(Prop):
    id = "C12"
    level = "exploration"
    RUNS = {"quick": 1400, "thorough": 14000}
    BUDGET = {"quick": 85, "thorough": 900}
    ORACLES = ("C12",)
    RULE = ("plan = history A1..Ak (k <= 6; template models ended built / solved / failed by a scripted peer, licence or "
            "option fault / interrupted by KeyboardInterrupt at a line event or by a stream error at a write / abandoned "
            "mid-construction) followed by model B with solves and observations; B is also executed alone in a pristine "
            "fork (twin); oracle = bit equality of B's solver input (every cvxpy constant and structure in order, or the "
            "literal MOSEK call sequence), returned values, evaluations, dual tables (C12/input, C12/results) and of "
            "names / counters (C12/numbering); non-trivial = history executed at least one op and B reached the solver; "
            "distinct = event-log digests of the after-history leg")
    ASSUMPTIONS = ("CLARABEL and SCS are bit-reproducible across processes (measured)",
                   "interrupt granularity is the source line (sys.settrace), C extensions are atomic",
                   "the MOSEK transport is a stand-in written from the documented API")
    COMPONENTS = {"real": ["every line of PEPit", "cvxpy modelling layer", "CLARABEL / SCS in REAL runs"],
                  "stub": ["solver in TAGGED runs", "mosek package (stand-in)", "licence state", "sys.stdout",
                           "KeyboardInterrupt / MemoryError injected through sys.settrace"]}

    def generate(self, rng, tier, idx):
        k = rng.choice([1, 1, 2, 2, 3, 4, 6])
        hist, endings = [], []
        if idx % (4 if tier == "thorough" else 6) == 1:
            # crash point drawn uniformly over *all* line events of a fixed small solve (count measured first)
            variant = (idx // 6) % len(ENUM_VARIANTS)
            total = enum_total(variant)
            at = 1 + rng.randrange(total)
            ops, s = enum_history(variant)
            s["faults"] = {"interrupt": {"at": at}}
            if rng.random() < 0.25:
                s["faults"]["interrupt"]["exc"] = "MemoryError"
            hist = ops + [s]
            endings = ["enum:v%d:%d/%d" % (variant, at, total)]
            k = 0
        orphans = []
        r_orph = rng.random()
        if r_orph < 0.2 and k > 0:
            # the session creates DSL objects before its very first PEP()
            orphans = orphan_ops(rng)
            if r_orph < 0.1:
                k = 0          # ... and model B is that first PEP
            endings = ["orphans"] + endings
            hist = orphans + hist
        bseed = rng.randrange(1 << 30)
        import random as _random
        brng = _random.Random(bseed)
        btemplate = brng.choices(sorted(templates.DEFAULT_WEIGHTS),
                                 weights=[templates.DEFAULT_WEIGHTS[t] for t in sorted(templates.DEFAULT_WEIGHTS)])[0]
        bn = brng.choice([1, 1, 2, 3])
        for i in range(k):
            like = (btemplate, bn, bseed) if rng.random() < 0.3 else None
            ops, e = history_model(rng, i, tier, like=like)
            hist += ops
            endings.append(e + ("~B" if like else ""))
        b = templates.build_model(_random.Random(bseed), prefix="b_", template=btemplate, n=bn,
                                  decorations=[] if rng.random() < 0.5 else None)
        bops = list(b.ops)
        mode = rng.choice(["tagged", "tagged", "real"])
        for s in range(rng.choice([1, 1, 2])):
            bops.append(draw_solve(rng, b.P, "b_tau%d" % s, peer_mode=mode, allow_heuristic=(rng.random() < 0.2)))
            bops += observe_ops(rng, b)
        # the session lets go of earlier models' objects at arbitrary points of B's build (rebinding variables,
        # garbage collection): whatever finalizers exist run in the middle of B
        nep = sum(1 for o in hist if o["op"] == "pep")
        for kep in range(nep):
            if rng.random() < 0.35:
                pos = rng.randrange(1, len(bops) + 1)
                bops.insert(pos, {"op": "release", "epoch": kep})
        twin_verbose = None
        if rng.random() < 0.4:
            twin_verbose = rng.choice([0, 1, 2])
        return {"history": hist, "B": bops, "endings": endings, "twin_verbose": twin_verbose,
                "fresh_twin": (tier == "thorough" and idx % 40 == 7) or (tier == "quick" and idx % 175 == 7),
                "tag": "%s|%s" % (",".join(endings), b.info.get("template")), "opts": {"raw": True}}

    def legs(self, plan):
        twin = plan["B"]
        if plan.get("twin_verbose") is not None:
            # "whatever the verbosity": the pristine twin runs B with another verbosity
            twin = copy.deepcopy(plan["B"])
            for op in twin:
                if op["op"] == "solve":
                    op["cfg"]["verbose"] = plan["twin_verbose"]
        legs = {"after": {"ops": plan["history"] + plan["B"], "opts": plan["opts"]},
                "pristine": {"ops": twin, "opts": plan["opts"]}}
        if plan.get("fresh_twin"):
            legs["pristine"]["fresh"] = True      # a genuinely fresh interpreter instead of a fork of the zygote
        return legs

    def judged_legs(self, plan):
        return []

    def oplists(self, plan):
        return [["history"], ["B"]]

    def judge(self, plan, res):
        a, p = res["after"], res["pristine"]
        nh = len(plan["history"])
        oa = (a.get("outcomes") or [])[nh:]
        op_ = p.get("outcomes") or []
        viol = []
        reached = False
        for i, (op, x, y) in enumerate(zip(plan["B"], oa, op_)):
            name = op["op"]
            if name == "solve":
                reached = reached or bool(y.get("ncalls"))
                for key in ("raw", "mosek_calls", "sizes", "transports", "mosek_ncalls"):
                    if x.get(key) != y.get(key):
                        viol.append({"oracle": "C12/input", "signature": "solver-input-differs:" + key,
                                     "detail": {"op": i, "after": str(x.get(key))[:200], "pristine": str(y.get(key))[:200]}})
                        break
                for key in ("status", "exc_type", "value", "ncalls", "writes"):
                    if key == "writes" and plan.get("twin_verbose") is not None:
                        continue
                    if x.get(key) != y.get(key):
                        viol.append({"oracle": "C12/results", "signature": "solve-result-differs:" + key,
                                     "detail": {"op": i, "after": str(x.get(key))[:200], "pristine": str(y.get(key))[:200]}})
                        break
            elif name == "release":
                continue
            elif name == "attr":
                if x != y:
                    viol.append({"oracle": "C12/numbering", "signature": "names-or-counters-differ",
                                 "detail": {"op": i, "h": op["h"], "after": x.get("value"), "pristine": y.get("value")}})
            else:
                if (x.get("status"), x.get("exc_type"), x.get("value")) != (y.get("status"), y.get("exc_type"), y.get("value")):
                    viol.append({"oracle": "C12/results", "signature": "observation-differs:" + name,
                                 "detail": {"op": i, "h": op.get("h") or op.get("f"),
                                            "after": str((x.get("status"), x.get("exc_type"), x.get("value")))[:300],
                                            "pristine": str((y.get("status"), y.get("exc_type"), y.get("value")))[:300]}})
        # keep one violation per signature
        seen, out = set(), []
        for v in viol:
            if v["signature"] not in seen:
                seen.add(v["signature"])
                out.append(v)
        nontrivial = reached and nh > 0
        info = {"nontrivial": nontrivial, "noverdict": not reached,
                "counters": {"fresh_interpreter_twins": 1} if plan.get("fresh_twin") else {}}
        return out, info

    def accept_oracle(self, oracle):
        return oracle.startswith("C12")


PROP = C12()
