"""C02 - the primal output is a feasible, self-consistent worst-case instance."""
from sim.props.base import Prop, gen_session


def post_solve_ops(rng, plan, k=4):
    """Objects built *after* the solve from existing handles (points, expressions, constraints, LMIs)."""
    pts, exs = [], []
    for op in plan["ops"]:
        if op["op"] in ("point", "plin", "newpoint"):
            pts.append(op["out"])
        elif op["op"] in ("oracle",):
            pts.append(op["out"][0])
            exs.append(op["out"][1])
        elif op["op"] in ("gradient", "block"):
            pts.append(op["out"])
        elif op["op"] in ("value", "inner", "sq", "elin", "newexpr"):
            exs.append(op["out"])
        elif op["op"] in ("stationary", "fixed"):
            pts.append(op["out"][0])
            exs.append(op["out"][2])
    ops = []
    n = [0]

    def nm(b):
        n[0] += 1
        return "post_%s%d" % (b, n[0])

    if rng.random() < 0.5:
        # the session goes on declaring things after the solve (new leaves), e.g. to prepare the next iterate
        q = nm("q")
        ops.append({"op": "newpoint", "out": q})
        fn = next((o["out"] for o in plan["ops"] if o["op"] == "func"), None)
        if fn is not None and pts and rng.random() < 0.7:
            ops.append({"op": "oracle", "out": [nm("g"), nm("v")], "f": fn, "x": rng.choice(pts)})

    P = next((o["out"] for o in plan["ops"] if o["op"] == "pep"), None)
    if P is not None and rng.random() < 0.5:
        tau = nm("tau")
        ops.append({"op": "getobjective", "P": P, "out": tau})
        exs.append(tau)
        if exs and rng.random() < 0.8:
            # e.g. the slack of a metric: metric - objective, or a multiple of the objective
            out = nm("e")
            ops.append({"op": "elin", "out": out, "terms": [[rng.choice(exs), 1.0], [tau, -1.0]]})
            exs.append(out)
            out2 = nm("e")
            ops.append({"op": "elin", "out": out2, "terms": [[tau, 2.0]], "const": 0.5})
            exs.append(out2)

    for _ in range(k):
        c = rng.randrange(5)
        if c == 0 and len(pts) >= 2:
            a, b = rng.sample(pts, 2)
            out = nm("x")
            ops.append({"op": "plin", "out": out, "terms": [[a, float("%.3g" % rng.uniform(-2, 2))], [b, 1.0]]})
            pts.append(out)
        elif c == 1 and len(pts) >= 2:
            a, b = rng.sample(pts, 2)
            out = nm("e")
            ops.append({"op": "inner", "out": out, "a": a, "b": b})
            exs.append(out)
        elif c == 2 and exs:
            a = rng.choice(exs)
            out = nm("e")
            ops.append({"op": "elin", "out": out, "terms": [[a, float("%.3g" % rng.uniform(-2, 2))]],
                        "const": float("%.3g" % rng.uniform(-1, 1))})
            exs.append(out)
        elif c == 3 and len(exs) >= 2:
            a, b = rng.sample(exs, 2)
            ops.append({"op": "cons", "out": nm("c"), "lhs": a, "rel": rng.choice(["<=", ">=", "=="]), "rhs": b})
        elif c == 4 and len(exs) >= 2:
            a, b = rng.sample(exs, 2)
            ops.append({"op": "psd", "out": nm("M"), "entries": [[a, b], [b, 1.0]]})
    ops.append({"op": "check", "what": "handles"})
    return ops


class C02(Prop):
    id = "C02"
    level = "exploration"
    RUNS = {"quick": 1800, "thorough": 16000}
    BUDGET = {"quick": 80, "thorough": 900}
    ORACLES = ("O-ATTR-PRIMAL", "O-HANDLES", "O-PRIMAL")
    RULE = ("seeded sessions (template model + decorations + 1-2 solves, transports cvxpy / stand-in MOSEK / fall-backs, "
            "objects built before and after the solve); TAGGED peer with a slightly indefinite Gram tag: Gram(leaf "
            "points) = PSD projection of the peer's G, every leaf expression = the peer's F entry (leaves reached "
            "through handles and through every generated constraint), every handle = its harness denotation at the "
            "leaf values; REAL peer: every delivered constraint / LMI holds, objective = smallest metric; "
            "non-trivial = a solve returned a value and an oracle ran; distinct = event-log digests")
    ASSUMPTIONS = ("leaf counters are the column indices of the SDP",
                   "REAL feasibility thresholds: 1e-3 relative (CLARABEL), 2e-3 (SCS)",
                   "the MOSEK transport is a stand-in written from the documented API")
    COMPONENTS = {"real": ["every line of PEPit", "cvxpy modelling layer", "CLARABEL / SCS (REAL runs)"],
                  "stub": ["solver in TAGGED runs", "mosek package (stand-in)", "licence state", "sys.stdout"]}

    def generate(self, rng, tier, idx):
        mode = "real" if rng.random() < 0.3 else "tagged"
        plan = gen_session(rng, tier, peer_mode=mode, nsolves=rng.choice([1, 1, 2, 2] if mode == "real" else [1, 1, 2]),
                           allow_heuristic=True, edit_bias="metric")
        for op in plan["ops"]:
            if op["op"] == "solve" and op["cfg"].get("heuristic") and mode == "real":
                op["peer"]["solver"] = "CLARABEL"
                op["peer"]["force_solver"] = True
                op["cfg"]["eig"] = 0.05
        plan["ops"] += post_solve_ops(rng, plan, k=rng.choice([2, 4, 6]))
        plan["opts"] = {"oracles": ["attr_primal", "handles", "primal"]}
        return plan

    def judge(self, plan, res):
        reach = res["main"].get("reach") or {}
        nontrivial = (reach.get("attr_primal_checked", 0) + reach.get("handles_checked", 0)) > 0
        return [], {"nontrivial": nontrivial, "noverdict": not nontrivial}


PROP = C02()
