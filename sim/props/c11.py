"""C11 - both solver back-ends solve the same problem and report duals in one convention."""
import copy

from sim import templates
from sim.props.base import Prop, draw_solve


class C11(Prop):
    id = "C11"
    level = "exploration"
    RUNS = {"quick": 1000, "thorough": 10000}
    BUDGET = {"quick": 85, "thorough": 900}
    ORACLES = ("O-ATTR", "O-CERT", "O-PRIMAL", "O-ATTR-PRIMAL", "O-HEUR", "O-DELIVERY", "C11")
    RULE = ("one seeded session (template model incl. >= 129 rows, LMIs declared in an order different from the order "
            "they are sent, orphan PSDMatrix objects, classes creating leaves during class-constraint generation, "
            "1-2 solves, optional heuristic) executed twice from twin forks: through the cvxpy transport and through "
            "the stand-in MOSEK transport; oracles: the SDP captured at the two seams is the same multiset of (sense, "
            "functional) rows, same LMIs, same objective; TAGGED: multipliers / primal values attributed exactly on "
            "each side in the exposed sign convention; REAL (CLARABEL on both sides): same value, certificate and "
            "primal instance valid on each side; a solve that works on one transport must work on the other; "
            "non-trivial = both transports reached their solver; distinct = event-log digests")
    ASSUMPTIONS = ("verdicts are relative to the stand-in's reading of the MOSEK documentation (lower-triangular "
                   "symmetric storage, y = s_l - s_u, sign of S_j under maximisation, appended variables fixed at 0); "
                   "the stand-in self-checks the MOSEK-form KKT system on every REAL solve",
                   "functionals compared at two generic probes")
    COMPONENTS = {"real": ["every line of PEPit incl. MosekWrapper and the sparse encoder", "cvxpy modelling layer",
                           "CLARABEL in REAL runs"],
                  "stub": ["mosek package (stand-in)", "solver in TAGGED runs", "licence state", "sys.stdout"]}

    def generate(self, rng, tier, idx):
        big = rng.random() < 0.15
        deco = None
        if rng.random() < 0.4:
            deco = [rng.choice(["lmi_func", "lmi_sym", "orphan_psd", "lmi_asym", "lmi3", "func_cons", "eq_cons",
                                "extra_metric", "useless_partition"]) for _ in range(rng.choice([1, 2, 3]))]
        b = templates.build_model(rng, template=("gd" if big else None), n=(rng.choice([9, 10, 11]) if big else None),
                                  decorations=deco)
        mode = rng.choice(["tagged", "tagged", "real"])
        if big:
            mode = "tagged"
        solves = []
        for k in range(rng.choice([1, 1, 2])):
            s = draw_solve(rng, b.P, "tau%d" % k, peer_mode=mode, allow_mosek=False, allow_heuristic=(rng.random() < 0.25))
            s["peer"]["solver"] = "CLARABEL"
            s["peer"]["force_solver"] = True
            if s["cfg"].get("heuristic"):
                s["cfg"]["eig"] = 0.05
            if rng.random() < 0.1:
                s["env_msk"] = {"mosek": "present", "licence": rng.choice([{"days": -1}, {"checkout_raises": True}])}
            solves.append(s)
        evals = []
        for c in b.conlist[:3]:
            evals.append({"op": "eval_dual", "h": c})
        for p in b.points[:2]:
            evals.append({"op": "eval", "h": p})
        return {"model": list(b.ops), "solves": solves, "evals": evals, "mode": mode,
                "tag": "%s/%s/n%s/%s%s" % (b.info.get("template"), b.info.get("cls"), b.info.get("n"), mode,
                                           "/big" if big else ""),
                "opts": {"oracles": ["attr", "cert", "primal", "attr_primal", "heuristic", "delivery"], "dump_seam": True}}

    def _ops(self, plan, transport):
        ops = list(plan["model"])
        for s in plan["solves"]:
            s = copy.deepcopy(s)
            if transport == "mosek":
                s["cfg"]["wrapper"] = "mosek"
                s["env"] = s.pop("env_msk", None) or {"mosek": "present"}
            else:
                s.pop("env_msk", None)
                s["cfg"]["wrapper"] = "cvxpy"
                s["env"] = {"mosek": "absent"}
            ops.append(s)
            ops += plan["evals"]
        return ops

    def legs(self, plan):
        return {"cvx": {"ops": self._ops(plan, "cvxpy"), "opts": plan["opts"]},
                "msk": {"ops": self._ops(plan, "mosek"), "opts": plan["opts"]}}

    def judged_legs(self, plan):
        return ["cvx", "msk"]

    def oplists(self, plan):
        return [["model"], ["solves"], ["evals"]]

    def keep_ops_valid(self, ops):
        return True

    def simplifications(self, plan):
        for i, s in enumerate(plan["solves"]):
            for key in ("heuristic",):
                if s["cfg"].get(key):
                    c = copy.deepcopy(plan)
                    c["solves"][i]["cfg"].pop(key)
                    yield c
            if s["cfg"].get("verbose"):
                c = copy.deepcopy(plan)
                c["solves"][i]["cfg"]["verbose"] = 0
                yield c
            if s["peer"].get("mode") == "real":
                c = copy.deepcopy(plan)
                for t in c["solves"]:
                    t["peer"]["mode"] = "tagged"
                c["mode"] = "tagged"
                yield c

    def plan_size(self, plan):
        return len(plan["model"]) + len(plan["solves"]) + len(plan["evals"])

    def judge(self, plan, res):
        from sim.oracles import match_sigs
        from sim.seam import sig_close
        a, b = res["cvx"].get("outcomes") or [], res["msk"].get("outcomes") or []
        ops = self._ops(plan, "cvxpy")
        viol = []
        both = 0
        worst = 0.0
        for i, op in enumerate(ops):
            if op["op"] != "solve" or i >= len(a) or i >= len(b):
                continue
            x, y = a[i], b[i]
            if x.get("spontaneous") or y.get("spontaneous"):
                continue
            sx, sy = x.get("seam") or [], y.get("seam") or []
            if sx and sy and "mosek" in (y.get("transports") or []):
                both += 1
            # a solve that works through one transport must work through the other
            okx = x.get("status") == "ok" and x.get("value") is not None
            oky = y.get("status") == "ok" and y.get("value") is not None
            if okx != oky:
                viol.append({"oracle": "C11/works", "signature": "solve-outcome-differs-between-transports:%s/%s" % (
                    x.get("exc_type") or ("value" if okx else "none"), y.get("exc_type") or ("value" if oky else "none")),
                    "detail": {"cvxpy": [x.get("status"), x.get("msg")], "mosek": [y.get("status"), y.get("msg")]}})
                continue
            for k, (cx, cy) in enumerate(zip(sx, sy)):
                if cx["unreadable"] or cy["unreadable"]:
                    viol.append({"oracle": "C11/seam", "signature": "unreadable-seam",
                                 "detail": {"cvxpy": cx["unreadable"][:2], "mosek": cy["unreadable"][:2]}})
                    break
                if cx["sense"] != cy["sense"]:
                    viol.append({"oracle": "C11/seam", "signature": "objective-sense-differs", "detail": {"call": k}})
                # from the third call on (logdet iterations) the objective <W, G> is computed from the previous
                # call's *numerical* answer, which legitimately differs between two real solves
                if (k < 2 or plan["mode"] == "tagged") and not sig_close(tuple(cx["obj"]), tuple(cy["obj"]), 1e-9):
                    viol.append({"oracle": "C11/seam", "signature": "objective-differs", "detail": {"call": k}})
                for sense in ("le", "eq", "free", "range"):
                    ex = [tuple(r[1]) for r in cx["rows"] if r[0] == sense]
                    ey = [tuple(r[1]) for r in cy["rows"] if r[0] == sense]
                    pairs, miss, extra = match_sigs(ex, ey)
                    if miss or extra:
                        viol.append({"oracle": "C11/seam", "signature": "rows-differ-between-transports:" + sense,
                                     "detail": {"call": k, "only_cvxpy": len(miss), "only_mosek": len(extra),
                                                "n_cvxpy": len(ex), "n_mosek": len(ey)}})
                        break
                lx = sorted((l[0], repr(_round(l[1]))) for l in cx["lmis"])
                ly = sorted((l[0], repr(_round(l[1]))) for l in cy["lmis"])
                if [l[0] for l in lx] != [l[0] for l in ly]:
                    viol.append({"oracle": "C11/seam", "signature": "lmi-sizes-differ-between-transports",
                                 "detail": {"cvxpy": [l[0] for l in lx], "mosek": [l[0] for l in ly]}})
                elif not _lmis_equal(cx["lmis"], cy["lmis"]):
                    viol.append({"oracle": "C11/seam", "signature": "lmi-entries-differ-between-transports",
                                 "detail": {"call": k}})
            if len(sx) != len(sy):
                viol.append({"oracle": "C11/seam", "signature": "number-of-solver-calls-differs",
                             "detail": {"cvxpy": len(sx), "mosek": len(sy)}})
            accurate = all(c_.get("status") == "optimal" for c_ in list(sx) + list(sy))
            if plan["mode"] == "real" and okx and oky and not accurate:
                pass    # a REAL solver that reports "inaccurate" promises nothing beyond its own status: no verdict on values
            elif plan["mode"] == "real" and okx and oky:
                va, vb = float.fromhex(x["value"]), float.fromhex(y["value"])
                err = abs(va - vb) / (1.0 + abs(va))
                worst = max(worst, err)
                if err > 1e-4:
                    viol.append({"oracle": "C11/value", "signature": "value-differs-between-transports",
                                 "detail": {"cvxpy": va, "mosek": vb}})
        seen, out = set(), []
        for v in viol:
            if v["signature"] not in seen:
                seen.add(v["signature"])
                out.append(v)
        return out, {"nontrivial": both > 0, "noverdict": both == 0, "residuals": {"C11/value": worst}}


def _round(x):
    if isinstance(x, list):
        return [_round(v) for v in x]
    if isinstance(x, float):
        return float("%.6g" % x)
    return x


def _lmis_equal(la, lb):
    from sim.seam import sig_close
    used = [False] * len(lb)
    for da, pa in la:
        hit = False
        for j, (db, pb) in enumerate(lb):
            if used[j] or da != db or len(pa) != len(pb):
                continue
            ok = True
            for (ka, sa), (kb, sb) in zip(pa, pb):
                if ka != kb:
                    ok = False
                    break
                # set semantics: the functionals an entry is tied to (an entry tied twice to one functional = once)
                da = [u for n_, u in enumerate(sa) if not any(sig_close(tuple(u), tuple(w), 1e-9) for w in sa[:n_])]
                db = [u for n_, u in enumerate(sb) if not any(sig_close(tuple(u), tuple(w), 1e-9) for w in sb[:n_])]
                if len(da) == len(db) and all(any(sig_close(tuple(u), tuple(v), 1e-9) for v in db) for u in da):
                    continue
                ok = False
                break
            if ok:
                used[j] = True
                hit = True
                break
        if not hit:
            return False
    return True


PROP = C11()
