"""C14 - dimension-reduction post-processing keeps the guarantee it started from."""
import copy

from sim import templates
from sim.props.base import Prop, draw_solve

W14 = {"gd": 3, "pgd": 2, "ppa": 2, "operator": 2, "subgradient": 1, "halpern": 1, "fw": 1, "inexact_gd": 1,
       "gd_qg": 1, "bcd": 1, "linesearch": 1}


class C14(Prop):
    id = "C14"
    level = "exploration"
    RUNS = {"quick": 640, "thorough": 6000}
    BUDGET = {"quick": 85, "thorough": 900}
    ORACLES = ("O-HEUR", "O-CERT", "O-ATTR", "O-PRIMAL", "C14")
    RULE = ("template models x heuristic in {trace, logdet1..4} x tol in [1e-6, 1e-2] x eig_regularization x transport "
            "{cvxpy, stand-in MOSEK} x {primal, dual}; REAL peer (CLARABEL) and TAGGED peer, plus scripted faults on "
            "solver calls >= 2; the whole exchange is captured at the seam (problem 1, added row, swapped objective, "
            "problems 2..n); oracles: dual-mode value and every exposed multiplier = those of problem 1 (twin without "
            "heuristic, exact), certificate valid for problem 1's rows, problem n = problem 1 + the single row "
            "objective >= wc - tol with objective <W, G>, primal value within tol of the optimum, final instance "
            "feasible, trace not increased; a fault-free run must return; non-trivial = a second solver call happened")
    ASSUMPTIONS = ("a SolverError raised by the real solver itself (not injected) yields no verdict",
                   "thresholds 1e-4 relative (CLARABEL)",
                   "the MOSEK transport is a stand-in written from the documented API")
    COMPONENTS = {"real": ["every line of PEPit", "cvxpy modelling layer", "CLARABEL in REAL runs"],
                  "stub": ["solver in TAGGED / scripted runs", "mosek package (stand-in)", "sys.stdout"]}

    def generate(self, rng, tier, idx):
        b = templates.build_model(rng, weights=W14, n=rng.choice([1, 2, 2, 3]),
                                  decorations=[] if rng.random() < 0.6 else None)
        mode = rng.choice(["real", "real", "tagged"])
        s = draw_solve(rng, b.P, "tau", peer_mode=mode, allow_mosek=False)
        tr = rng.choice(["cvxpy", "mosek"])
        if tr == "mosek":
            s["cfg"]["wrapper"] = "mosek"
            s["env"] = {"mosek": "present"}
        s["cfg"]["heuristic"] = rng.choice(["trace", "trace", "logdet1", "logdet2", "logdet3", "logdet4"])
        s["cfg"]["tol"] = float("%.2g" % (10 ** rng.uniform(-6, -2)))
        s["cfg"]["eig"] = float("%.2g" % (10 ** rng.uniform(-2, -1))) if rng.random() < 0.85 else \
            float("%.2g" % (10 ** rng.uniform(-5, -2)))
        if mode == "tagged" and rng.random() < 0.2:
            s["cfg"]["tol"] = rng.choice([0.0, 0])       # a legal corner value: no loss allowed at all
        s["cfg"]["mode"] = rng.choice(["dual", "primal"])
        s["peer"]["solver"] = "CLARABEL"
        s["peer"]["force_solver"] = True
        s["cfg"]["kwargs"] = {"solver": "CLARABEL"} if rng.random() < 0.7 else {}
        s["cfg"].pop("positional", None)
        if rng.random() < 0.3:
            s["cfg"]["positional"] = rng.choice([4, 5, 6, 6])   # options given positionally, in the documented order
        twin = copy.deepcopy(s)
        twin["cfg"].pop("heuristic")
        twin["cfg"]["mode"] = "dual"
        fault = None
        if mode == "tagged" and rng.random() < 0.5:
            fault = {str(rng.choice([2, 2, 3])): rng.choice([
                {"action": "raise"}, {"action": "status", "status": "infeasible"},
                {"action": "status", "status": "infeasible_inaccurate"},
                {"action": "status", "status": "optimal_inaccurate", "values": "perturbed"}])}
            s["peer"]["script"] = fault
        evals = []
        for c in b.conlist[:3]:
            evals.append({"op": "eval_dual", "h": c})
        for m in b.psds[:2]:
            evals.append({"op": "eval_dual", "h": m})
        return {"model": list(b.ops), "solve": s, "twin_solve": twin, "evals": evals, "mode": mode, "fault": fault,
                "tag": "%s/%s/%s/%s/%s" % (b.info.get("template"), s["cfg"]["heuristic"], tr, s["cfg"]["mode"], mode),
                "opts": {"oracles": ["heuristic", "cert", "attr", "primal"]}}

    def legs(self, plan):
        return {"main": {"ops": plan["model"] + [plan["solve"]] + plan["evals"], "opts": plan["opts"]},
                "twin": {"ops": plan["model"] + [plan["twin_solve"]] + plan["evals"], "opts": {}}}

    def judged_legs(self, plan):
        return ["main"]

    def oplists(self, plan):
        return [["model"], ["evals"]]

    def simplifications(self, plan):
        if plan["solve"]["cfg"].get("verbose"):
            c = copy.deepcopy(plan)
            c["solve"]["cfg"]["verbose"] = 0
            c["twin_solve"]["cfg"]["verbose"] = 0
            yield c
        if plan["solve"]["cfg"].get("heuristic", "").startswith("logdet") and plan["solve"]["cfg"]["heuristic"] != "logdet1":
            c = copy.deepcopy(plan)
            c["solve"]["cfg"]["heuristic"] = "logdet1"
            yield c

    def plan_size(self, plan):
        return len(plan["model"])

    def judge(self, plan, res):
        nm = len(plan["model"])
        m = (res["main"].get("outcomes") or [])
        t = (res["twin"].get("outcomes") or [])
        if len(m) <= nm or len(t) <= nm:
            return [], {"nontrivial": False, "noverdict": True}
        x, y = m[nm], t[nm]
        viol = []
        ncalls = x.get("ncalls") or 0
        injected = bool(plan.get("fault"))
        spont = x.get("spontaneous") or y.get("spontaneous")
        twin_ok = y.get("status") == "ok" and y.get("value") is not None
        verdict = False
        if twin_ok and not spont:
            verdict = True
            if x.get("status") != "ok":
                if not injected:
                    viol.append({"oracle": "C14/return", "signature": "heuristic-run-raises:" + str(x.get("exc_type")),
                                 "detail": {"msg": x.get("msg"), "cfg": plan["solve"]["cfg"]}})
            elif x.get("value") is None:
                if not injected:
                    viol.append({"oracle": "C14/return", "signature": "heuristic-run-returns-none", "detail": {}})
            else:
                if plan["solve"]["cfg"]["mode"] == "dual":
                    a, b = float.fromhex(x["value"]), float.fromhex(y["value"])
                    if abs(a - b) > 1e-8 * (1 + abs(b)):
                        viol.append({"oracle": "C14/dual", "signature": "dual-value-changed-by-heuristic",
                                     "detail": {"with": a, "without": b, "injected": injected}})
                # exposed multipliers are those of the first problem
                for k, (op, u, v) in enumerate(zip(plan["evals"], m[nm + 1:], t[nm + 1:])):
                    if u.get("status") == "ok" and v.get("status") == "ok" and u.get("value") != v.get("value"):
                        if not _close(u.get("value"), v.get("value")):
                            viol.append({"oracle": "C14/dual", "signature": "multiplier-changed-by-heuristic",
                                         "detail": {"h": op["h"]}})
                            break
        return viol, {"nontrivial": ncalls >= 2, "noverdict": not verdict}

    def accept_oracle(self, oracle):
        return any(oracle == o or oracle.startswith(o + "/") for o in self.ORACLES)


def _flat(v):
    if isinstance(v, list):
        out = []
        for x in v:
            out += _flat(x)
        return out
    return [float.fromhex(v)] if isinstance(v, str) else [v]


def _close(a, b):
    fa, fb = _flat(a), _flat(b)
    if len(fa) != len(fb):
        return False
    return all(abs(x - y) <= 1e-8 * (1 + abs(y)) for x, y in zip(fa, fb))


PROP = C14()
