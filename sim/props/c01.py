"""C01 - the returned bound is backed by a complete, checkable dual certificate."""
from sim.props.base import Prop, gen_session


class C01(Prop):
    id = "C01"
    level = "exploration"
    RUNS = {"quick": 1800, "thorough": 16000}
    BUDGET = {"quick": 80, "thorough": 900}
    ORACLES = ("O-ATTR", "O-CERT")
    RULE = ("seeded sessions (template model + decorations + 1-2 solves; transports cvxpy / stand-in MOSEK / fall-backs; "
            "primal|dual; verbose 0-2); TAGGED peer: every exposed multiplier must equal the number the peer returned "
            "for the row / cone that carried that constraint (rows identified by functional, not by PEPit's lists), and "
            "the dual-mode return value must equal the constant of the identity; REAL peer (CLARABEL): the identity, "
            "signs and PSD-ness; non-trivial = a solve returned a value and an oracle ran; distinct = event-log digests")
    ASSUMPTIONS = ("rows are identified by their affine functional at two generic probes",
                   "REAL verdicts use CLARABEL at default 1e-8 accuracy with threshold 1e-4 relative",
                   "the MOSEK transport is a stand-in written from the documented API; its sign conventions are "
                   "self-checked against the MOSEK-form KKT system on every REAL solve")
    COMPONENTS = {"real": ["every line of PEPit", "cvxpy modelling layer", "CLARABEL (REAL runs)"],
                  "stub": ["solver in TAGGED runs", "mosek package (stand-in)", "licence state", "sys.stdout"]}

    def generate(self, rng, tier, idx):
        mode = "real" if rng.random() < 0.3 else "tagged"
        deco = None
        if rng.random() < 0.35:
            deco = ["extra_metric"] * rng.choice([1, 2]) + [rng.choice(["lmi_sym", "eq_cons", "func_cons", "lmi_func"])]
        plan = gen_session(rng, tier, peer_mode=mode, nsolves=rng.choice([1, 1, 2]), decorations=deco,
                           allow_heuristic=(rng.random() < 0.3))
        for op in plan["ops"]:
            if op["op"] == "solve" and op["cfg"].get("heuristic"):
                op["cfg"]["eig"] = 0.05
        for op in plan["ops"]:
            if op["op"] == "solve" and mode == "real":
                op["peer"]["solver"] = "CLARABEL"
                op["peer"]["force_solver"] = True
                if "solver" in op["cfg"]["kwargs"]:
                    op["cfg"]["kwargs"]["solver"] = "CLARABEL"
        plan["opts"] = {"oracles": ["attr", "cert"]}
        return plan

    def judge(self, plan, res):
        r = res["main"]
        reach = r.get("reach") or {}
        nontrivial = (reach.get("attr_dual_checked", 0) + reach.get("cert_checked", 0)) > 0
        noverdict = not nontrivial
        return [], {"nontrivial": nontrivial, "noverdict": noverdict}


PROP = C01()
