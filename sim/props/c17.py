"""C17 - dual tables report each multiplier at the pair of points it belongs to."""
from sim.props.base import Prop, gen_session


class C17(Prop):
    id = "C17"
    level = "exploration"
    RUNS = {"quick": 1800, "thorough": 16000}
    BUDGET = {"quick": 80, "thorough": 900}
    ORACLES = ("O-TABLES",)
    RULE = ("seeded sessions on all classes (named and unnamed points / functions, 1-3 solves, TAGGED peer, both "
            "transports); get_class_constraints_duals() of every leaf function after every successful solve: must not "
            "raise; entry (i, j) must be the number the peer returned for the seam row whose functional is the "
            "constraint the class generates for samples (i, j) (recomputed from the class's own pair formula and found "
            "at the seam by functional), 0 elsewhere; shapes and labels = samples; each class constraint's name must "
            "address its own cell; non-trivial = at least one table cell compared")
    ASSUMPTIONS = ("the constraint 'generated for the pair (i, j)' is the one returned by the class's pair formula "
                   "applied to samples i and j of the lists the class passes to the generic table builders",
                   "rows identified by functional at two generic probes")
    COMPONENTS = {"real": ["every line of PEPit", "cvxpy modelling layer", "pandas"],
                  "stub": ["solver (tagged answers)", "mosek package (stand-in)", "sys.stdout"]}

    def generate(self, rng, tier, idx):
        wts, bias = None, None
        r17 = rng.random()
        if r17 < 0.12:
            wts, bias = {"ppa": 1}, "param"       # classes whose list of conditions depends on a parameter (D, M)
        elif r17 < 0.24:
            wts, bias = None, "rename"            # names given (again) between two solves
        elif r17 < 0.30:
            wts, bias = {"linear": 1}, "adjoint_sample"
        plan = gen_session(rng, tier, peer_mode="tagged", nsolves=rng.choice([1, 1, 2, 3] if wts is None else [2, 3]),
                           class_duals=True, decorations=[] if rng.random() < 0.5 else None, weights=wts,
                           edit_bias=bias, dup_names=False)
        # label stress: repeated queries at one (named) point, and several points carrying the same name
        first_solve = next(k for k, op in enumerate(plan["ops"]) if op["op"] == "solve")
        extra = []
        funcs = [op["out"] for op in plan["ops"][:first_solve] if op["op"] == "func" and op["cls"] != "LinearOperator"]
        pts = [op["out"] for op in plan["ops"][:first_solve] if op["op"] in ("point", "plin")]
        if funcs and pts and rng.random() < 0.5:
            for k in range(rng.choice([1, 2])):
                extra.append({"op": "oracle", "out": ["rep_g%d" % k, "rep_v%d" % k], "f": rng.choice(funcs),
                              "x": rng.choice(pts)})
        if rng.random() < 0.35:
            shared = rng.choice(["x", "pt", "Point_0", "Point_1"])
            named = [op for op in plan["ops"][:first_solve] if op["op"] in ("point", "stationary")]
            for op in rng.sample(named, min(len(named), rng.choice([1, 2, 2]))):
                op["name"] = shared
        plan["ops"] = plan["ops"][:first_solve] + extra + plan["ops"][first_solve:]
        if rng.random() < 0.15:
            # accessor before the first solve (must not fabricate a table of numbers)
            f = next((op["out"] for op in plan["ops"] if op["op"] == "func"), None)
            i = next(k for k, op in enumerate(plan["ops"]) if op["op"] == "solve")
            plan["ops"].insert(i, {"op": "class_duals", "f": f, "before": True})
        plan["opts"] = {"oracles": ["tables"]}
        return plan

    def judge(self, plan, res):
        r = res["main"]
        viol = []
        ops = plan["ops"]
        ok_solve = False
        for op, out in zip(ops, r.get("outcomes") or []):
            if op["op"] == "solve":
                ok_solve = out.get("status") == "ok" and out.get("value") is not None
            if op["op"] == "class_duals" and out.get("status") == "exc":
                if ok_solve:
                    viol.append({"oracle": "O-TABLES", "signature": "tables-accessor-raises:" + out["exc_type"],
                                 "detail": {"f": op["f"], "msg": out.get("msg")}})
                elif out["exc_type"] != "ValueError":
                    viol.append({"oracle": "O-TABLES", "signature": "tables-accessor-before-solve-raises:" + out["exc_type"],
                                 "detail": {"f": op["f"], "msg": out.get("msg")}})
            if op["op"] == "class_duals" and out.get("status") == "ok" and not ok_solve and out.get("value"):
                # (a table that holds only structural zeros - cells without a constraint, e.g. the 1x1 table of a
                # single sample after the user generated the class constraints by hand - fabricates nothing)
                from sim.props.c16 import _has_nonzero
                if op.get("before") and _has_nonzero(out.get("value")):
                    viol.append({"oracle": "O-TABLES", "signature": "table-of-numbers-before-any-solve",
                                 "detail": {"f": op["f"]}})
        reach = r.get("reach") or {}
        nontrivial = reach.get("table_cells", 0) > 0
        return viol, {"nontrivial": nontrivial, "noverdict": not nontrivial}


PROP = C17()
