"""Base class of a property check and the shared session generator ("model + solves")."""
import copy
from collections import Counter

from sim import templates


class Prop(object):
    id = None
    level = "exploration"
    RUNS = {"quick": 400, "thorough": 4000}
    BUDGET = {"quick": 80, "thorough": 800}
    ORACLES = ()
    RULE = ""
    ASSUMPTIONS = ()
    COMPONENTS = {"real": ["every line of PEPit", "cvxpy modelling layer", "numpy / pandas"],
                  "stub": ["sys.stdout (SimStream)"]}

    # ---- plan structure ---------------------------------------------------------------------------
    def generate(self, rng, tier, idx):
        raise NotImplementedError

    def legs(self, plan):
        return {"main": {"ops": plan["ops"], "opts": plan.get("opts", {})}}

    def judged_legs(self, plan):
        return ["main"]

    def accept_oracle(self, oracle):
        return any(oracle == o or oracle.startswith(o + "/") for o in self.ORACLES)

    def judge(self, plan, res):
        info = {"nontrivial": any((r.get("ncaps") or 0) > 0 for r in res.values())}
        return [], info

    def oplists(self, plan):
        return [["ops"]]

    def keep_ops_valid(self, ops):
        return True

    def simplifications(self, plan):
        """Yield simpler variants of the plan (generic: drop faults, verbosity, decorations of solve ops)."""
        for path in self.oplists(plan):
            ops = plan
            for k in path:
                ops = ops[k]
            for i, op in enumerate(ops):
                if op.get("op") != "solve":
                    continue
                if op.get("faults"):
                    c = copy.deepcopy(plan)
                    o = c
                    for k in path:
                        o = o[k]
                    o[i].pop("faults")
                    yield c
                if (op.get("peer") or {}).get("script"):
                    c = copy.deepcopy(plan)
                    o = c
                    for k in path:
                        o = o[k]
                    o[i]["peer"].pop("script")
                    yield c
                if (op.get("cfg") or {}).get("verbose"):
                    c = copy.deepcopy(plan)
                    o = c
                    for k in path:
                        o = o[k]
                    o[i]["cfg"]["verbose"] = 0
                    yield c
                if (op.get("peer") or {}).get("mode") == "real":
                    c = copy.deepcopy(plan)
                    o = c
                    for k in path:
                        o = o[k]
                    o[i]["peer"]["mode"] = "tagged"
                    yield c
                if (op.get("cfg") or {}).get("heuristic"):
                    c = copy.deepcopy(plan)
                    o = c
                    for k in path:
                        o = o[k]
                    o[i]["cfg"].pop("heuristic")
                    yield c

    def tag(self, plan):
        return plan.get("tag", "")

    def plan_size(self, plan):
        n = 0
        for path in self.oplists(plan):
            ops = plan
            for k in path:
                ops = ops[k]
            n += len(ops)
        return n

    # ---- evidence ---------------------------------------------------------------------------------
    def evidence(self, results, tier, seed, wall):
        ok = [r for r in results if r["status"] == "ok"]
        digests = set(r["digest"] for r in ok if r.get("nontrivial"))
        faults, reach, notes = Counter(), Counter(), Counter()
        residuals = {}
        tags = Counter()
        counters = Counter()
        steps = 0
        for r in ok:
            counters.update(r.get("counters") or {})
            faults.update(r.get("faults") or {})
            reach.update(r.get("reach") or {})
            notes.update(r.get("notes") or {})
            tags[r.get("tag", "")] += 1
            steps += r.get("steps", 0)
            for k, v in (r.get("residuals") or {}).items():
                if not (v <= residuals.get(k, -1.0)):
                    residuals[k] = v
        samples = []
        for r in results[:3]:
            if r.get("plan"):
                samples.append(self.abbreviate(r["plan"]))
        cov = {
            "evaluations": len(results),
            "distinct_nontrivial": len(digests),
            "rule": self.RULE,
            "samples": samples or ["(no plan recorded)"],
            "no_verdict_runs": sum(1 for r in ok if r.get("noverdict")),
            "faults_fired": dict(faults),
            "reach_probes": dict(reach),
            "notes": dict(notes),
            "distinct_templates_or_tags": len(tags),
            "tags": dict(tags.most_common(40)),
            "logical_steps_executed": steps,
            "simulated_time": "not applicable: PEPit has no clock or timer; steps = operations + seam events",
            "max_residual_per_oracle": residuals,
            "judged_cells": dict(sorted(counters.items())),
            "components": self.COMPONENTS,
            "exhaustive": False,
        }
        return {"property_id": self.id, "tier": tier, "seed": int(seed), "level": self.level, "coverage": cov,
                "assumptions": list(self.ASSUMPTIONS), "wall_s": float(wall), "violations": 0}

    def abbreviate(self, plan):
        out = {}
        for k, v in plan.items():
            if isinstance(v, list) and len(v) > 12:
                out[k] = v[:6] + ["... %d more ..." % (len(v) - 10)] + v[-4:]
            else:
                out[k] = v
        return out


# --------------------------------------------------------------------------------------------------
# shared session generator
# --------------------------------------------------------------------------------------------------
def draw_solve(rng, P, out, peer_mode="tagged", allow_mosek=True, allow_heuristic=False, allow_env_faults=True,
               real_solver=None):
    """One `solve` op with a configuration drawn from the swarm."""
    cfg = {"wrapper": "cvxpy", "mode": rng.choice(["dual", "dual", "primal"]), "verbose": rng.choice([0, 0, 1, 2]),
           "kwargs": {}}
    envc = {"mosek": "absent"}
    transport = rng.choice(["cvxpy", "cvxpy", "mosek", "mosek", "mosek-absent", "mosek-licence"]) if allow_mosek \
        else "cvxpy"
    if transport == "mosek":
        cfg["wrapper"] = rng.choice(["mosek", "MOSEK", "Mosek"])
        envc = {"mosek": "present"}
    elif transport == "mosek-absent":
        cfg["wrapper"] = "mosek"
        envc = {"mosek": "absent"}
    elif transport == "mosek-licence" and allow_env_faults:
        cfg["wrapper"] = "mosek"
        envc = {"mosek": "present",
                "licence": rng.choice([{"days": -1}, {"checkout_raises": True}, {"days": -5, "checkout_raises": True}])}
    elif transport == "cvxpy" and rng.random() < 0.3:
        # cvxpy wrapper with the stand-in visible: the wrapper's own licence probing runs
        envc = {"mosek": "present", "licence": rng.choice([{}, {"days": -1}, {"checkout_raises": True}])}
    solver = real_solver or rng.choice(["CLARABEL", "CLARABEL", "CLARABEL", "SCS"])
    r = rng.random()
    if r < 0.8:
        cfg["kwargs"]["solver"] = solver
    elif r < 0.87:
        cfg["kwargs"]["solver"] = None      # documented as "let the wrapper choose" (MOSEK if usable, else SCS)
    if transport == "cvxpy" and rng.random() < 0.05:
        cfg["wrapper"] = rng.choice(["gurobi", "CVXPY", "Cvxpy", "scs"])   # unknown names fall back to cvxpy
    peer = {"mode": peer_mode, "tagseed": rng.randrange(1 << 30), "solver": solver}
    if peer_mode == "tagged" and rng.random() < 0.3:
        peer["indef"] = True
    if allow_heuristic and rng.random() < 0.5:
        cfg["heuristic"] = rng.choice(["trace", "logdet1", "logdet2", "logdet3"])
        cfg["tol"] = float("%.2g" % (10 ** rng.uniform(-6, -2)))
        cfg["eig"] = float("%.2g" % (10 ** rng.uniform(-2, -1)))
    if rng.random() < 0.15:
        cfg["positional"] = rng.choice([1, 2, 3, 4, 5, 6, 6])    # that many leading options given positionally
    op = {"op": "solve", "P": P, "out": out, "cfg": cfg, "peer": peer, "env": envc}
    return op


def effective_transport(op):
    """Which transport a solve op is expected to use, given its environment script."""
    cfg, envc = op.get("cfg") or {}, op.get("env") or {}
    if cfg.get("wrapper", "cvxpy").lower() != "mosek":
        return "cvxpy"
    if envc.get("mosek") != "present":
        return "cvxpy"
    lic = envc.get("licence") or {}
    if lic.get("checkout_raises") or lic.get("days", 100) < 0:
        return "cvxpy"
    return "mosek"


INTERRUPT_TARGETS = ["add_class_constraints", "_solve_with_wrapper", "_eval_points_and_function_values",
                     "check_feasibility", "send_constraint_to_solver", "send_lmi_constraint_to_solver",
                     "add_partition_constraints", "assign_dual_values", "_recover_dual_values", "generate_problem",
                     "expression_to_matrices", "expression_to_sparse_matrices", "_expression_to_solver",
                     "add_constraint", "get_block", "add_constraints_from_two_lists_of_points", "set_main_variables"]


def failing_solve(rng, P, out, peer_mode="tagged", b=None):
    """A solve of the same PEP object that fails: scripted solver failure, Ctrl-C at some line, stream error."""
    f = draw_solve(rng, P, out, peer_mode=peer_mode if peer_mode == "tagged" else "tagged")
    targets = list(INTERRUPT_TARGETS)
    if b is not None and b.parts:
        targets += ["add_partition_constraints", "add_constraint", "add_partition_constraints", "get_block"] * 3
    if b is not None and b.psds:
        targets += ["send_lmi_constraint_to_solver"] * 4
    kind = rng.choice(["script", "script", "interrupt", "interrupt", "stdout"])
    if kind == "script":
        f["peer"]["script"] = {"1": rng.choice([{"action": "raise"}, {"action": "status", "status": "infeasible"},
                                                {"action": "status", "status": "unbounded"},
                                                {"action": "status", "status": "unbounded_inaccurate"}])}
    elif kind == "interrupt":
        if rng.random() < 0.5:
            f["faults"] = {"interrupt": {"at": int(10 ** rng.uniform(0, 3.9))}}
        else:
            f["faults"] = {"interrupt": {"at": int(10 ** rng.uniform(0, 2.3)), "fn": rng.choice(targets)}}
        if rng.random() < 0.25:
            f["faults"]["interrupt"]["exc"] = "MemoryError"     # a failing allocation instead of Ctrl-C
    else:
        f["cfg"]["verbose"] = rng.choice([1, 2])
        f["faults"] = {"stdout": {"at": rng.randrange(1, 60), "errno": rng.choice(["EPIPE", "ENOSPC"])}}
    f["nojudge"] = True
    return f


def edit_ops(rng, b, s, bias=None):
    """Edits of the model between two solves (all keep it bounded and feasible)."""
    ops = []
    pts = [p for p in b.points if p]
    metrics = b.info.get("metrics") or []
    kind = rng.choice(["metric", "metric", "cons", "lmi", "func_cons", "part_cons", "remove_cons", "more_samples",
                       "param", "late_cons", "late_cons", "metric_replace", "rename", "adjoint_sample"])
    if bias and rng.random() < 0.6:
        kind = bias
    tag = "ed%d_" % s
    if kind == "metric" and metrics:
        e = tag + "m"
        ops.append({"op": "elin", "out": e, "terms": [[metrics[0], float("%.3g" % rng.uniform(0.3, 2.0))]],
                    "const": float("%.2g" % rng.uniform(0, 0.05))})
        ops.append({"op": "metric", "P": b.P, "e": e})
    elif kind == "cons" and pts:
        e = tag + "e"
        ops.append({"op": "sq", "out": e, "a": rng.choice(pts)})
        ops.append({"op": "cons", "out": tag + "c", "lhs": e, "rel": "<=", "rhs": 8e3, "target": b.P})
    elif kind == "lmi" and metrics:
        sname = tag + "s"
        ops.append({"op": "newexpr", "out": sname})
        ops.append({"op": "psd", "out": tag + "M", "entries": [[metrics[0], sname], [sname, 1.0]], "target": b.P})
    elif kind == "func_cons" and pts and b.info.get("main_f"):
        e = tag + "e"
        ops.append({"op": "sq", "out": e, "a": rng.choice(pts)})
        ops.append({"op": "cons", "out": tag + "c", "lhs": e, "rel": "<=", "rhs": 9e3, "target": b.info["main_f"]})
    elif kind == "part_cons" and pts and b.parts:
        e = tag + "e"
        ops.append({"op": "sq", "out": e, "a": rng.choice(pts)})
        ops.append({"op": "cons", "out": tag + "c", "lhs": e, "rel": "<=", "rhs": 9.5e3, "target": b.parts[0]})
    elif kind == "late_cons" and pts:
        # a constraint built and *evaluated* after a solve it was not part of, then added to the model
        e = tag + "le"
        ops.append({"op": "sq", "out": e, "a": rng.choice(pts)})
        ops.append({"op": "cons", "out": tag + "lc", "lhs": e, "rel": rng.choice(["<=", ">="]),
                    "rhs": rng.choice([8.5e3, 0.05, 1.0]) if False else 8.5e3})
        ops[-1]["rel"] = "<="
        ops.append({"op": "eval", "h": tag + "lc"})
        ops.append({"op": "attach", "c": tag + "lc", "target": b.P})
    elif kind == "metric_replace" and len(metrics) >= 1:
        # replace the list of metrics (not an append): drop all, declare a rescaled copy of the first one
        e = tag + "mr"
        ops.append({"op": "edit", "P": b.P, "what": "clear_metrics"})
        ops.append({"op": "elin", "out": e, "terms": [[metrics[0], float("%.3g" % rng.uniform(0.4, 1.6))]]})
        ops.append({"op": "metric", "P": b.P, "e": e})
    elif kind == "param" and b.info.get("main_f"):
        fop = next((o for o in b.ops if o["op"] == "func" and o["out"] == b.info["main_f"]), None)
        if fop and "L" in (fop.get("params") or {}):
            ops.append({"op": "setparam", "f": b.info["main_f"], "attr": "L", "scale": float("%.2g" % rng.uniform(0.8, 0.99))})
        elif fop and fop["cls"] == "ConvexIndicatorFunction" and "D" in (fop.get("params") or {}):
            # the diameter condition disappears from the class conditions
            ops.append({"op": "setparam", "f": b.info["main_f"], "attr": "D", "value": "inf"})
        elif fop and fop["cls"] == "ConvexSupportFunction" and "M" in (fop.get("params") or {}):
            ops.append({"op": "setparam", "f": b.info["main_f"], "attr": "M", "value": "inf"})
    elif kind == "rename":
        # a function and / or a sampled point get another name between two solves
        if b.info.get("main_f") and rng.random() < 0.6:
            ops.append({"op": "rename", "h": b.info["main_f"], "name": "fun_%s" % tag})
        if pts and rng.random() < 0.7:
            ops.append({"op": "rename", "h": rng.choice(pts), "name": "pt_%s" % tag})
    elif kind == "adjoint_sample" and b.info.get("cls") == "LinearOperator" and b.info.get("main_f"):
        # only the adjoint gets one more sample (the operator's own list of points is unchanged)
        q = tag + "u"
        ops.append({"op": "newpoint", "out": q})
        ops.append({"op": "gradient", "out": tag + "w", "f": b.info["main_f"] + "T", "x": q})
        ops.append({"op": "sq", "out": tag + "ue", "a": q})
        ops.append({"op": "cons", "out": tag + "uc", "lhs": tag + "ue", "rel": "<=", "rhs": 1.0, "target": b.P})
    elif kind == "remove_cons":
        red = [o["out"] for o in b.ops if o["op"] == "cons" and o.get("target") == b.P and o.get("how") != "initial"]
        if red:
            ops.append({"op": "edit", "P": b.P, "what": "remove_constraint", "c": rng.choice(red)})
    elif kind == "more_samples" and pts and b.info.get("main_f"):
        # one more evaluation of the main function (at an existing or a fresh point); for a linear operator
        # also one more evaluation of its transpose
        q = tag + "q"
        ops.append({"op": "newpoint", "out": q})
        ops.append({"op": "oracle", "out": [tag + "g", tag + "v"], "f": b.info["main_f"], "x": rng.choice(pts + [q])})
        if b.info.get("cls") == "LinearOperator":
            ops.append({"op": "gradient", "out": tag + "gt", "f": b.info["main_f"] + "T", "x": q})
            ops.append({"op": "sq", "out": tag + "qe", "a": q})
            ops.append({"op": "cons", "out": tag + "qc", "lhs": tag + "qe", "rel": "<=", "rhs": 1.0, "target": b.P})
    return ops


def gen_session(rng, tier, peer_mode=None, nsolves=None, allow_mosek=True, allow_heuristic=False, weights=None,
                decorations=None, evals=True, class_duals=False, template=None, allow_decor=None, n=None, edits=True, edit_bias=None, faults=True,
                dup_names=None):
    b = templates.build_model(rng, template=template, weights=weights, decorations=decorations,
                              allow_decor=allow_decor, n=n, dup_names=dup_names)
    ops = list(b.ops)
    peer_mode = peer_mode or rng.choice(["tagged", "tagged", "real"])
    nsolves = nsolves if nsolves is not None else rng.choice([1, 1, 1, 2])
    for s in range(nsolves):
        if s > 0 and edits and rng.random() < (0.9 if edit_bias else 0.6):
            ops += edit_ops(rng, b, s, bias=edit_bias)
        if faults and (s > 0 or rng.random() < 0.5) and rng.random() < (faults if isinstance(faults, float) else 0.25):
            ops.append(failing_solve(rng, b.P, "fail%d" % s, peer_mode, b=b))
        ops.append(draw_solve(rng, b.P, "tau%d" % s, peer_mode=peer_mode, allow_mosek=allow_mosek,
                              allow_heuristic=allow_heuristic))
        if class_duals:
            for f in b.funcs:
                ops.append({"op": "class_duals", "f": f})
    tag = "%s/%s/n%d/%s" % (b.info.get("template"), b.info.get("cls"), b.info.get("n"),
                            "+".join(sorted(set(b.info.get("decorations") or []))))
    return {"ops": ops, "tag": tag, "info": {k: v for k, v in b.info.items() if isinstance(v, (str, int, float, list))}}
