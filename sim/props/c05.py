"""C05 - the problem handed to the solver is exactly the declared model."""
from sim.props.base import Prop, gen_session


class C05(Prop):
    id = "C05"
    level = "exploration"
    RUNS = {"quick": 2400, "thorough": 20000}
    BUDGET = {"quick": 75, "thorough": 900}
    ORACLES = ("O-DELIVERY",)
    RULE = ("seeded sessions: template model (all 24 classes, 8 steps, partitions, LMIs) + decorations, 1-3 solves on "
            "both transports (cvxpy, stand-in MOSEK, fall-backs); at every solve the canonical SDP read at the seam is "
            "compared as a multiset with the ledger of declared items plus the class / partition items generated for "
            "that solve; non-trivial = at least one solver call captured; distinct = distinct event-log digests")
    ASSUMPTIONS = ("the affine functional of a row is identified by its values at two fixed generic probe points",
                   "class constraints expected at a solve are the Constraint / PSDMatrix objects created inside "
                   "add_class_constraints / add_partition_constraints during that solve",
                   "the MOSEK transport is a stand-in written from the documented API")
    COMPONENTS = {"real": ["every line of PEPit", "cvxpy modelling layer", "numpy / pandas"],
                  "stub": ["solver (tagged answers, no SDP solved)", "mosek package (stand-in)", "licence state",
                           "sys.stdout"]}

    def generate(self, rng, tier, idx):
        w = None
        if rng.random() < 0.25:
            w = {"bcd": 3, "gd": 1, "pgd": 1, "linear": 1}     # partitions and class LMIs: where lists persist
        plan = gen_session(rng, tier, peer_mode="tagged", nsolves=rng.choice([1, 1, 2, 3] if w is None else [2, 3]),
                           faults=0.45 if w is None else 0.8, weights=w)
        plan["opts"] = {"oracles": ["delivery", "alg"]}
        return plan


    def judge(self, plan, res):
        r = res["main"]
        viol = []
        reached = False
        declared = set()
        for op, out in zip(plan["ops"], r.get("outcomes") or []):
            if op["op"] == "metric" and out.get("status") == "ok":
                declared.add(op["P"])
            if op["op"] != "solve":
                continue
            reached = reached or bool(out.get("ncalls"))
            injected = bool(op.get("faults")) or bool((op.get("peer") or {}).get("script")) or op.get("nojudge")
            lic = ((op.get("env") or {}).get("licence") or {})
            known_wrapper = op["cfg"].get("wrapper", "cvxpy").lower() in ("cvxpy", "mosek")
            if out.get("status") == "exc" and not injected and not out.get("ncalls") and known_wrapper \
                    and not lic.get("expire_after_checks") and op["P"] in declared:
                # a legal model (it has at least a performance metric: the minimiser may not shrink it into an empty
                # PEP, which no back-end accepts), no fault injected, and nothing reached the solver
                msg = str(out.get("msg") or "")
                where = msg.split(":")[0].strip() if ":" in msg[:40] else ""
                viol.append({"oracle": "O-DELIVERY", "signature": "declared-model-does-not-reach-the-solver:" +
                             str(out.get("exc_type")) + (":" + where if where.isidentifier() else ""),
                             "detail": {"msg": out.get("msg"), "wrapper": op["cfg"].get("wrapper")}})
                break
        return viol, {"nontrivial": reached, "noverdict": not reached}


PROP = C05()
