"""O-SEAM: canonical reading of the SDP that crosses the solver seam, for both transports.

An affine functional f(G, F) is represented by its *signature* (f(0,0), f(G1,F1)-f(0,0), f(G2,F2)-f(0,0))
at two fixed generic probe points.  Two affine functionals are equal iff their signatures are equal
(with probability one over the probes); index i of G / F always receives the same probe number whatever
the dimensions, so signatures are comparable across transports, solves and processes.
Nothing here uses PEPit's expression_to_matrices / expression_to_sparse_matrices.
"""
import hashlib

import numpy as np

K = 2
_MAXG, _MAXF = 96, 2048
_rng = np.random.default_rng(20240229)
_GP = []
_FP = []
for _k in range(K):
    _A = _rng.standard_normal((_MAXG, _MAXG))
    _GP.append((_A + _A.T) / 2)
    _FP.append(_rng.standard_normal(_MAXF))
_MP = _rng.standard_normal((64, 64))
_MP = (_MP + _MP.T) / 2 + 10.0 * np.arange(1, 65)[:, None] + 10.0 * np.arange(1, 65)[None, :]


def probe_G(k, n):
    return _GP[k][:n, :n].copy()


def probe_F(k, n):
    return _FP[k][:n].copy()


def probe_M(idx, d):
    """Generic symmetric matrix with pairwise distinct entries (up to symmetry), distinct per LMI index."""
    return _MP[:d, :d] * (1.0 + 0.37 * idx) + 0.013 * idx


def sig_close(a, b, tol=1e-9):
    s = 1.0 + max(abs(x) for x in a) + max(abs(x) for x in b)
    return all(abs(x - y) <= tol * s for x, y in zip(a, b))


def sig_dist(a, b):
    s = 1.0 + max(abs(x) for x in a) + max(abs(x) for x in b)
    return max(abs(x - y) for x, y in zip(a, b)) / s


def sig_neg(a):
    return tuple(-x for x in a)


# ------------------------------------------------------------------------------------------------
# Independent reader of a PEPit Expression (symbolic side)
# ------------------------------------------------------------------------------------------------
def expression_terms(expression):
    """Return (const, {F index: coef}, {(i, j) with i <= j: coef of G_ij + G_ji ... see below}).

    The G part is returned as a dict {(i, j): w} over *ordered* leaf index pairs as written; the
    functional is sum w * G[i, j] with G symmetric.
    """
    from PEPit.expression import Expression
    const = 0.0
    fpart = {}
    gpart = {}
    if expression.get_is_leaf():
        fpart[expression.counter] = 1.0
        return const, fpart, gpart
    for key, w in expression.decomposition_dict.items():
        if isinstance(key, Expression):
            fpart[key.counter] = fpart.get(key.counter, 0.0) + w
        elif isinstance(key, tuple):
            p, q = key
            ij = (p.counter, q.counter)
            gpart[ij] = gpart.get(ij, 0.0) + w
        elif isinstance(key, (int, float)) and key == 1:
            const += w
        else:
            raise TypeError("unreadable key in decomposition_dict: %r" % (type(key),))
    return const, fpart, gpart


def expression_sig(expression):
    const, fpart, gpart = expression_terms(expression)
    out = [float(const)]
    for k in range(K):
        v = 0.0
        for i, w in fpart.items():
            v += w * _FP[k][i]
        for (i, j), w in gpart.items():
            v += w * _GP[k][i, j]
        out.append(float(v))
    return tuple(out)


def terms_sig(const, fpart, gpart):
    out = [float(const)]
    for k in range(K):
        v = 0.0
        for i, w in fpart.items():
            v += w * _FP[k][i]
        for (i, j), w in gpart.items():
            v += w * _GP[k][i, j]
        out.append(float(v))
    return tuple(out)


# ------------------------------------------------------------------------------------------------
# Capture object
# ------------------------------------------------------------------------------------------------
class Capture(object):
    """Canonical SDP as received by a peer at one solver call."""

    def __init__(self, transport):
        self.transport = transport
        self.nG = None
        self.nF = None
        self.sense = None            # "max" | "min"
        self.obj_sig = None          # signature of the objective functional (G, F part)
        self.obj_extra = None        # description of objective dependence on LMI variables (should be none)
        self.rows = []               # scalar rows in delivered order: dict(sense, sig, ref)
        self.lmis = []               # dict(dim, pairs {(i,j) i<=j: [sigs]}, ref, pos)
        self.order = []              # delivered order of ("row", k) / ("lmi", k)
        self.unreadable = []         # things the reader could not interpret
        self.raw_digest = None       # bit-for-bit digest of the numeric data in delivery order
        self.sizes = None

    def size_tuple(self):
        return (self.nG, self.nF, len(self.rows), tuple(l["dim"] for l in self.lmis))

    def summary(self):
        return {"transport": self.transport, "nG": self.nG, "nF": self.nF, "rows": len(self.rows),
                "lmis": [l["dim"] for l in self.lmis], "sense": self.sense}


# ------------------------------------------------------------------------------------------------
# cvxpy side
# ------------------------------------------------------------------------------------------------
def _raw_walk(h, expr, varnum):
    import cvxpy as cp
    from cvxpy.expressions.constants.constant import Constant
    from cvxpy.expressions.variable import Variable
    h.update(type(expr).__name__.encode())
    h.update(repr(tuple(expr.shape)).encode())
    if isinstance(expr, Variable):
        if expr.id not in varnum:
            varnum[expr.id] = len(varnum)
        h.update(b"V%d" % varnum[expr.id])
        h.update(repr(sorted(k for k, v in expr.attributes.items() if v)).encode())
        return
    if isinstance(expr, Constant):
        v = expr.value
        if hasattr(v, "todense"):
            v = np.asarray(v.todense())
        h.update(np.ascontiguousarray(np.asarray(v, dtype=float)).tobytes())
        return
    data = expr.get_data() if hasattr(expr, "get_data") else None
    if data is not None:
        h.update(repr(data).encode())
    for a in expr.args:
        _raw_walk(h, a, varnum)


def raw_digest_cvxpy(problem):
    h = hashlib.sha256()
    varnum = {}
    h.update(type(problem.objective).__name__.encode())
    _raw_walk(h, problem.objective.args[0], varnum)
    for c in problem.constraints:
        h.update(type(c).__name__.encode())
        for a in c.args:
            _raw_walk(h, a, varnum)
    return h.hexdigest()


def _bare_variable(expr):
    """If `expr` is a matrix variable (possibly written as `V - 0`), return that Variable."""
    from cvxpy.expressions.variable import Variable
    if isinstance(expr, Variable):
        return expr
    vs = expr.variables()
    if len(vs) != 1 or tuple(vs[0].shape) != tuple(expr.shape) or len(expr.shape) != 2:
        return None
    v = vs[0]
    d = int(v.shape[0])
    old = v.value
    try:
        S = probe_M(3, d) if d <= 64 else None
        if S is None:
            return None
        v.value = S
        ok = np.allclose(np.asarray(expr.value, dtype=float), S, rtol=0, atol=1e-12)
        v.value = np.zeros((d, d))
        ok = ok and np.allclose(np.asarray(expr.value, dtype=float), 0.0, rtol=0, atol=1e-12)
    finally:
        v.value = old
    return v if ok else None


def read_cvxpy(problem, want_raw=False):
    import cvxpy as cp
    from cvxpy.constraints.psd import PSD
    from cvxpy.constraints.zero import Equality, Zero
    from cvxpy.constraints.nonpos import Inequality, NonPos, NonNeg
    from cvxpy.expressions.variable import Variable

    cap = Capture("cvxpy")
    variables = problem.variables()
    # --- identify variables structurally
    psd_vars = []   # in order of their PSD constraints
    psd_pos = {}
    general_psd = []
    for pos, c in enumerate(problem.constraints):
        if isinstance(c, PSD):
            a = _bare_variable(c.args[0])
            if a is not None and a.id not in psd_pos:
                psd_vars.append(a)
                psd_pos[a.id] = pos
            else:
                general_psd.append((pos, c))
    vec_vars = [v for v in variables if v.ndim == 1]
    other = [v for v in variables if v.ndim != 1 and v.id not in psd_pos]
    if len(psd_vars) == 0 or len(vec_vars) != 1 or other:
        cap.unreadable.append("variables: %d psd, %d vector, %d other" % (len(psd_vars), len(vec_vars), len(other)))
        cap.vars = None
        return cap
    G = psd_vars[0]
    F = vec_vars[0]
    Ms = psd_vars[1:]
    cap.nG = int(G.shape[0])
    cap.nF = int(F.shape[0])
    cap.vars = {"G": G, "F": F, "M": Ms}
    if cap.nG > _MAXG or cap.nF > _MAXF:
        cap.unreadable.append("problem larger than the probe tables")
        return cap

    def assign(k, with_M):
        if k is None:
            G.value = np.zeros((cap.nG, cap.nG))
            F.value = np.zeros(cap.nF)
        else:
            G.value = probe_G(k, cap.nG)
            F.value = probe_F(k, cap.nF)
        for idx, M in enumerate(Ms):
            d = int(M.shape[0])
            M.value = probe_M(idx, d) if with_M else np.zeros((d, d))

    scalar_cons = []   # (pos, c, kind)
    for pos, c in enumerate(problem.constraints):
        if isinstance(c, PSD):
            continue
        if isinstance(c, (Equality, Zero)):
            scalar_cons.append((pos, c, "eq"))
        elif isinstance(c, (Inequality, NonPos)):
            scalar_cons.append((pos, c, "le"))
        elif isinstance(c, NonNeg):
            scalar_cons.append((pos, c, "ge"))
        else:
            cap.unreadable.append("constraint type %s" % type(c).__name__)

    def residual_expr(c):
        # the affine expression e with  e == 0 / e <= 0 / e >= 0
        if hasattr(c, "expr"):
            return c.expr
        return c.args[0]

    obj_expr = problem.objective.args[0]
    cap.sense = "max" if type(problem.objective).__name__ == "Maximize" else "min"
    exprs = [residual_expr(c) for _, c, _ in scalar_cons]

    def evaluate_all():
        vals = []
        for e in exprs:
            v = e.value
            vals.append(np.asarray(v, dtype=float).reshape(-1))
        return vals, float(np.asarray(obj_expr.value).reshape(-1)[0]), [np.asarray(c.args[0].value, dtype=float)
                                                                        for _, c in general_psd]

    assign(None, False)
    v0, o0, g0 = evaluate_all()
    vk, ok, gk = [], [], []
    for k in range(K):
        assign(k, False)
        a, b, g = evaluate_all()
        vk.append(a)
        ok.append(b)
        gk.append(g)
    assign(None, True)
    vm, om, _ = evaluate_all()
    cap.obj_sig = (o0,) + tuple(ok[k] - o0 for k in range(K))
    if abs(om - o0) > 1e-12 * (1 + abs(o0)):
        cap.obj_extra = "objective depends on an LMI variable"

    # lookup tables for M entries
    mtab = []
    for idx, M in enumerate(Ms):
        d = int(M.shape[0])
        P = probe_M(idx, d)
        for i in range(d):
            for j in range(i, d):
                mtab.append((P[i, j], idx, i, j))
    lmis = [{"dim": int(M.shape[0]), "pairs": {}, "pos": psd_pos[M.id], "var": M, "links": [], "link_sigs": {}}
            for M in Ms]

    delivered = []   # (pos, kind, payload)
    for n, (pos, c, kind) in enumerate(scalar_cons):
        size = v0[n].shape[0]
        for t in range(size):
            const = float(v0[n][t])
            sig = (const,) + tuple(float(vk[k][n][t]) - const for k in range(K))
            mdep = float(vm[n][t]) - const
            if abs(mdep) > 1e-9:
                # row linking an LMI variable entry:  coef * M[i, j] + (sig) == 0
                hit = None
                for (pv, idx, i, j) in mtab:
                    for coef in (1.0, -1.0):
                        if abs(mdep - coef * pv) <= 1e-9 * (1 + abs(pv)):
                            hit = (idx, i, j, coef)
                            break
                    if hit:
                        break
                if hit is None or kind != "eq":
                    cap.unreadable.append("row %d depends on an LMI variable in an unreadable way" % pos)
                    continue
                idx, i, j, coef = hit
                # coef*M_ij + e == 0  =>  M_ij = -e/coef
                esig = tuple(-x / coef for x in sig)
                lmis[idx]["pairs"].setdefault((i, j), []).append(esig)
                lmis[idx]["links"].append((pos, (i, j)))
                lmis[idx]["link_sigs"][pos] = esig
            else:
                if kind == "ge":
                    sig = sig_neg(sig)
                    kind2 = "le"
                else:
                    kind2 = kind
                cap.rows.append({"sense": kind2, "sig": sig, "pos": pos, "cons": c, "sub": t})
                delivered.append((pos, "row", len(cap.rows) - 1))
    for idx, l in enumerate(lmis):
        d = l["dim"]
        missing = [(i, j) for i in range(d) for j in range(i, d) if (i, j) not in l["pairs"]]
        if missing:
            cap.unreadable.append("LMI %d: entries %r are not linked to any expression" % (idx, missing[:3]))
        for key in l["pairs"]:
            l["pairs"][key] = sorted(l["pairs"][key])
        cap.lmis.append(l)
        delivered.append((l["pos"], "lmi", idx))
    for n, (pos, c) in enumerate(general_psd):
        d = int(c.args[0].shape[0])
        pairs = {}
        for i in range(d):
            for j in range(i, d):
                sigs = []
                for (a, b) in ((i, j), (j, i)) if i != j else ((i, i),):
                    const = float(g0[n][a, b])
                    sigs.append((const,) + tuple(float(gk[k][n][a, b]) - const for k in range(K)))
                pairs[(i, j)] = sorted(sigs)
        cap.lmis.append({"dim": d, "pairs": pairs, "pos": pos, "var": None, "links": [], "cons": c})
        delivered.append((pos, "lmi", len(cap.lmis) - 1))
    delivered.sort(key=lambda t: t[0])
    cap.order = [(k, i) for _, k, i in delivered]
    cap.gram_cons = problem.constraints[psd_pos[G.id]]
    # leave variables without values
    for v in variables:
        v.value = None
    if want_raw:
        cap.raw_digest = raw_digest_cvxpy(problem)
    return cap


# ------------------------------------------------------------------------------------------------
# stand-in MOSEK side
# ------------------------------------------------------------------------------------------------
def read_mosek(task, want_raw=False):
    cap = Capture("mosek")
    if not task.bardims:
        cap.unreadable.append("no bar variable")
        return cap
    cap.nG = int(task.bardims[0])
    nvar = task.nvar
    free = [j for j in range(nvar) if task.vb[j][0] == "fr"]
    cap.nF = len(free)
    cap.nvar = nvar
    if cap.nG > _MAXG or nvar > _MAXF:
        cap.unreadable.append("problem larger than the probe tables")
        return cap
    fixedval = {}
    for j in range(nvar):
        bk, bl, bu = task.vb[j]
        if bk == "fx":
            fixedval[j] = bl
        elif bk != "fr":
            cap.unreadable.append("variable %d has bound key %s" % (j, bk))
    cap.sense = "max" if task.sense == "maximize" else "min"

    def xprobe(k):
        x = np.zeros(nvar)
        if k is not None:
            x[:] = _FP[k][:nvar]
        for j, v in fixedval.items():
            x[j] = v
        return x

    xs = [xprobe(None)] + [xprobe(k) for k in range(K)]
    Gs = [np.zeros((cap.nG, cap.nG))] + [probe_G(k, cap.nG) for k in range(K)]

    # rows
    rowA = {}
    for (i, j), v in task.A.items():
        rowA.setdefault(i, []).append((j, v))
    rowB = {}
    for (i, j), lst in task.barA.items():
        rowB.setdefault(i, []).append((j, lst))
    nb = len(task.bardims)
    lmis = [{"dim": int(task.bardims[j]), "pairs": {}, "pos": None, "bar": j, "links": [], "link_sigs": {}}
            for j in range(1, nb)]
    delivered = []
    for i in range(task.ncon):
        vals = []
        for t in range(K + 1):
            v = 0.0
            for (j, a) in rowA.get(i, []):
                v += a * xs[t][j]
            for (j, lst) in rowB.get(i, []):
                if j == 0:
                    v += float(np.sum(task.sym_dense(lst, cap.nG) * Gs[t]))
            vals.append(v)
        others = [(j, lst) for (j, lst) in rowB.get(i, []) if j != 0]
        bk, bl, bu = task.cb[i]
        lin = tuple(vals[t] - vals[0] for t in range(1, K + 1))
        base = vals[0]  # contribution of fixed variables at the origin
        if others:
            # row linking one entry of an LMI bar variable
            ok = (bk == "fx" and len(others) == 1)
            if ok:
                j, lst = others[0]
                S = task.sym_dense(lst, task.bardims[j])
                nz = np.argwhere(np.abs(np.tril(S)) > 0)
                if len(nz) != 1:
                    ok = False
            if not ok:
                cap.unreadable.append("row %d touches LMI variables in an unreadable way" % i)
                continue
            a, b = int(nz[0][0]), int(nz[0][1])
            coef = S[a, b] * (2.0 if a != b else 1.0)    # coefficient of X[a, b] (symmetric storage)
            # base + lin + coef * X_ab = bl   =>  X_ab = -(base - bl + lin)/coef
            esig = tuple(-x / coef for x in ((base - bl,) + lin))
            key = (min(a, b), max(a, b))
            lmis[j - 1]["pairs"].setdefault(key, []).append(esig)
            lmis[j - 1]["links"].append((i, key))
            lmis[j - 1]["link_sigs"][i] = esig
            if lmis[j - 1]["pos"] is None:
                lmis[j - 1]["pos"] = i
                delivered.append((i, "lmi", j - 1))
            continue
        if bk == "up":
            cap.rows.append({"sense": "le", "sig": (base - bu,) + lin, "pos": i})
        elif bk == "fx":
            cap.rows.append({"sense": "eq", "sig": (base - bl,) + lin, "pos": i})
        elif bk == "lo":
            cap.rows.append({"sense": "le", "sig": sig_neg((base - bl,) + lin), "pos": i})
        elif bk == "fr":
            cap.rows.append({"sense": "free", "sig": (base,) + lin, "pos": i})
        else:
            cap.rows.append({"sense": "range", "sig": (base - bl, base - bu) + lin, "pos": i})
        delivered.append((i, "row", len(cap.rows) - 1))
    for idx, l in enumerate(lmis):
        d = l["dim"]
        missing = [(i, j) for i in range(d) for j in range(i, d) if (i, j) not in l["pairs"]]
        if missing:
            cap.unreadable.append("LMI bar variable %d: entries %r are not linked" % (l["bar"], missing[:3]))
        for key in l["pairs"]:
            l["pairs"][key] = sorted(l["pairs"][key])
        if l["pos"] is None:
            l["pos"] = task.ncon + idx
            delivered.append((l["pos"], "lmi", idx))
        cap.lmis.append(l)
    delivered.sort(key=lambda t: t[0])
    cap.order = [(k, i) for _, k, i in delivered]
    # objective
    ovals = []
    for t in range(K + 1):
        v = 0.0
        for j, cj in task.c.items():
            v += cj * xs[t][j]
        if 0 in task.barC:
            v += float(np.sum(task.sym_dense(task.barC[0], cap.nG) * Gs[t]))
        ovals.append(v)
    cap.obj_sig = (ovals[0],) + tuple(ovals[t] - ovals[0] for t in range(1, K + 1))
    if any(j != 0 for j in task.barC):
        cap.obj_extra = "objective depends on an LMI variable"
    cap.obj_cols = dict(task.c)
    return cap
