"""Self-tests of the machinery itself: determinism (same seed => same event log, everywhere) and sensitivity."""
import concurrent.futures
import json
import multiprocessing
import os
import random
import subprocess
import sys
import time

from sim import engine, runner

VERIF = os.path.dirname(os.path.dirname(os.path.abspath(__file__)))
PROPS = ["C01", "C02", "C04", "C05", "C07", "C11", "C12", "C13", "C14", "C15", "C16", "C17"]


def _digest_task(args):
    pid, seed, indices, fresh = args
    prop = engine.load_prop(pid)
    out = {}
    for idx in indices:
        rs = engine.run_seed(seed, pid, "quick", idx)
        plan = prop.generate(random.Random(rs), "quick", idx)
        if os.environ.get("VERIF_SELFTEST_EVENTS"):
            # diagnostic mode: keep the event list of every leg so that the first diverging event can be shown
            legs = prop.legs(plan)
            evs = {}
            for name, leg in legs.items():
                leg = dict(leg)
                leg["opts"] = dict(leg.get("opts") or {}, keep_events=True)
                rr = (runner.run_leg_fresh_interpreter if fresh else runner.run_leg_forked)(leg)
                evs[name] = [rr.get("events"), rr.get("stdout_digest"), rr.get("digest")]
            out[idx] = ["ok", json.dumps(evs, sort_keys=True), []]
            continue
        r = engine.run_plan(prop, plan, fresh=fresh)
        sigs = sorted([v["oracle"], v["signature"]] for v in r.get("violations") or [])
        out[idx] = [r.get("status"), r.get("digest"), sigs]
        if os.environ.get("VERIF_KEEP_EVENTS") and str(idx) in os.environ["VERIF_KEEP_EVENTS"].split(","):
            with open("/tmp/events_%s_%d_%d.json" % (pid, idx, os.getpid()), "w") as fh:
                json.dump(r.get("legs_events"), fh)
    return out


def digests(pid, seed, n, workers, fresh=False):
    from sim import env
    env.bootstrap()
    chunk = max(1, n // (workers * 2))
    tasks = [(pid, seed, list(range(s, min(s + chunk, n))), fresh) for s in range(0, n, chunk)]
    res = {}
    ctx = multiprocessing.get_context("fork")
    with concurrent.futures.ProcessPoolExecutor(max_workers=workers, mp_context=ctx) as pool:
        for part in pool.map(_digest_task, tasks):
            res.update(part)
    return res


def main(what, seed=None, workers=None):
    seed = engine.DEFAULT_SEED if seed is None else seed
    if what.startswith("selftest-digests:"):
        # helper mode (run under another PYTHONHASHSEED): print digests as JSON
        _, pid, n = what.split(":")
        d = digests(pid, seed, int(n), workers or 8)
        sys.__stdout__.write("DIGESTS " + json.dumps({str(k): v for k, v in d.items()}) + "\n")
        return 0
    if what == "selftest-determinism":
        return determinism(seed)
    if what == "selftest-sensitivity":
        from sim import sensitivity
        return sensitivity.main(seed)
    print("unknown selftest", what)
    return 2


def determinism(seed, n=None, nfresh=None):
    n = n or int(os.environ.get("VERIF_SELFTEST_N", "500"))
    nfresh = nfresh or int(os.environ.get("VERIF_SELFTEST_FRESH", "24"))
    bad = 0
    t0 = time.time()
    summary = {}
    for pid in (os.environ.get("VERIF_SELFTEST_PROPS", "").split(",") if os.environ.get("VERIF_SELFTEST_PROPS") else PROPS):
        a = digests(pid, seed, n, 16)
        b = digests(pid, seed, n, 4)
        envv = dict(os.environ, PYTHONHASHSEED="1")
        p = subprocess.run([sys.executable, "-B", "-W", "ignore", os.path.join(VERIF, "sim", "cli.py"),
                            "selftest-digests:%s:%d" % (pid, n), "--seed", str(seed)], env=envv,
                           stdout=subprocess.PIPE, stderr=subprocess.PIPE)
        c = None
        for line in p.stdout.decode().splitlines():
            if line.startswith("DIGESTS "):
                c = {int(k): v for k, v in json.loads(line[8:]).items()}
        if c is None:
            print("HARNESS-ERROR: digest helper failed for %s: %s" % (pid, p.stderr.decode()[-500:]))
            return 2
        d = digests(pid, seed, nfresh, 8, fresh=True)
        mism = []
        for idx in range(n):
            if not (a[idx] == b[idx] == c[idx]):
                mism.append((idx, "workers16/workers4/hashseed1", a[idx][:2], b[idx][:2], c[idx][:2]))
            if idx in d and d[idx] != a[idx]:
                mism.append((idx, "fork/fresh-interpreter", a[idx][:2], d[idx][:2]))
        nonok = sum(1 for idx in range(n) if a[idx][0] != "ok")
        summary[pid] = {"seeds": n, "fresh": nfresh, "mismatches": len(mism), "non_ok": nonok}
        print("%s: %d seeds x (16 workers, 4 workers, PYTHONHASHSEED=1) + %d in fresh interpreters: %d mismatches, "
              "%d non-ok runs" % (pid, n, nfresh, len(mism), nonok))
        for m in mism[:5]:
            if os.environ.get("VERIF_SELFTEST_EVENTS"):
                ea, eb = json.loads(m[2][1]), json.loads(m[3][1])
                for leg in ea:
                    la, lb = ea[leg][0] or [], eb[leg][0] or []
                    for k in range(max(len(la), len(lb))):
                        if k >= len(la) or k >= len(lb) or la[k] != lb[k]:
                            print("   MISMATCH", m[0], m[1], "leg", leg, "first diverging event", k,
                                  la[k] if k < len(la) else None, lb[k] if k < len(lb) else None)
                            break
                    else:
                        if ea[leg][1:] != eb[leg][1:]:
                            print("   MISMATCH", m[0], m[1], "leg", leg, "same events, stdout/digest differ", ea[leg][1:], eb[leg][1:])
                continue
            print("   MISMATCH", m)
        bad += len(mism)
    print("determinism self-test: %d mismatches, %.0fs" % (bad, time.time() - t0))
    with open(os.path.join(VERIF, "selftests", "selftest-determinism.json"), "w") as fh:
        json.dump({"seed": seed, "summary": summary, "wall_s": time.time() - t0}, fh, indent=1)
    return 2 if bad else 0
