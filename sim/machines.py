"""Reference-model invariants for the solver-free machines: oracle bookkeeping (C07), block partitions (C15)."""
import itertools

import numpy as np

TOL = 1e-11


def _close(a, b, tol=TOL):
    keys = set(a) | set(b)
    s = 1.0 + max([abs(v) for v in a.values()] + [abs(v) for v in b.values()] + [0.0])
    return all(abs(a.get(k, 0.0) - b.get(k, 0.0)) <= tol * s for k in keys)


def _prune(d):
    return {k: v for k, v in d.items() if abs(v) > 0}


def _key(d):
    # "the same decomposition" is exact equality of the coefficient dictionaries (what the library documents and
    # implements); two decompositions that differ by floating-point rounding (0.44 - 0.95 + 1 vs 1 + 0.44 - 0.95)
    # are different points for the library, hence for the reference model
    return tuple(sorted((k, float(v).hex()) for k, v in _prune(d).items()))


def _add(acc, d, w):
    for k, v in d.items():
        acc[k] = acc.get(k, 0.0) + w * v


# --------------------------------------------------------------------------------------------------
# C07
# --------------------------------------------------------------------------------------------------
def check_book(world, i, op, out):
    st = world.__dict__.setdefault("_book", {"returns_v": {}, "returns_g": {}})
    funcs = [(n, world.h[n]) for n in (world.epoch or {}).get("funcs", []) if n in world.h]
    # ---- record what this op returned
    name = op["op"]
    if out["status"] == "ok" and name in ("oracle", "gradient", "value"):
        fname, xname = op["f"], op["x"]
        F = world.h[fname]
        xk = _key(world.den_point(world.h[xname]))
        if name == "oracle":
            g, v = world.h[op["out"][0]], world.h[op["out"][1]]
        elif name == "gradient":
            g, v = world.h[op["out"]], None
        else:
            g, v = None, world.h[op["out"]]
        zero_comb = (not F.get_is_leaf()) and not any(w != 0 for w in F.decomposition_dict.values())
        if zero_comb:
            if (v is not None and _prune(world.den_expr(v))) or (g is not None and _prune(world.den_point(g))):
                if (fname, xk) in st.get("known_samples", ()):
                    # the sample was declared directly (stationary_point / fixed_point / a step / add_point) on the
                    # zero combination before this query; the oracle merely returns it
                    world.violation("C07/I3", "identically-zero-combination-keeps-a-free-sample-declared-directly",
                                    {"f": fname})
                else:
                    world.violation("C07/I3", "identically-zero-combination-returns-a-non-zero-sample", {"f": fname})
        # I6: after a query at x the function holds a sample *at x* (same decomposition, exactly): two points that
        # differ, however little, are two points
        if not zero_comb and not any(_key(world.den_point(t[0])) == xk for t in F.list_of_points):
            world.violation("C07/I6", "query-did-not-record-a-sample-at-the-queried-point", {"f": fname, "x": xname})
        if v is not None:
            dv = world.den_expr(v)
            prev = st["returns_v"].get((fname, xk))
            if prev is not None and not _close(prev, dv):
                world.violation("C07/I1", "two-values-returned-for-one-function-at-one-point", {"f": fname, "x": xname})
            st["returns_v"].setdefault((fname, xk), dv)
        if g is not None:
            dg = world.den_point(g)
            prev = st["returns_g"].get((fname, xk))
            if prev is not None and getattr(F, "reuse_gradient", False) and not _close(prev, dg):
                world.violation("C07/I2", "differentiable-function-returned-two-gradients-at-one-point",
                                {"f": fname, "x": xname})
            st["returns_g"].setdefault((fname, xk), dg)
        world.reach["book_queries"] += 1
    # ---- I5: what a primitive step returns as "(sub)gradient of f at x" / "f evaluated at x" is a recorded sample of f
    if out["status"] == "ok" and name == "step":
        spec = {"proximal_step": [((0, 1, 2), "f")], "exact_linesearch_step": [((0, 1, 2), "f")],
                "linear_optimization_step": [((0, 1, 2), "ind")], "bregman_gradient_step": [((0, 1, 2), "mirror_map")],
                "bregman_proximal_step": [((0, 1, 2), "mirror_map"), ((0, 3, 4), "min_function")],
                "inexact_proximal_step": [((0, 1, 2), "f"), ((3, 4, 5), "f")]}.get(op["kind"], [])
        for (ix, ig, iv), arg in spec:
            fh = (op.get("args") or {}).get(arg)
            if not (isinstance(fh, str) and fh.startswith("@")) or fh[1:] not in world.h:
                continue
            F = world.h[fh[1:]]
            try:
                x, g, v = (world.h[op["out"][k]] for k in (ix, ig, iv))
            except KeyError:
                continue
            if not any(t[0] is x and t[1] is g and t[2] is v for t in F.list_of_points):
                world.violation("C07/I5", "step-returns-a-sample-that-the-function-did-not-record",
                                {"step": op["kind"], "f": fh[1:], "which": [ix, ig, iv],
                                 "opt": (op.get("args") or {}).get("opt")})
        world.reach["book_steps"] += 1
    # ---- I0: a function is what it was built as: no later operation (`+=`, a query, a step) changes its terms
    snap = st.setdefault("decomp0", {})
    for n, F in funcs:
        # (terms of weight zero may come and go: the library prunes them when it needs the effective terms)
        cur = None if F.get_is_leaf() else tuple(sorted((id(t), float(w)) for t, w in F.decomposition_dict.items()
                                                        if w != 0))
        if n not in snap:
            snap[n] = cur
        elif snap[n] != cur:
            world.violation("C07/I0", "composite-function-changed-after-it-was-built", {"f": n})
            snap[n] = cur
    # ---- invariants over the recorded samples of every function
    samples = {}
    for n, F in funcs:
        lst = []
        for (x, g, v) in F.list_of_points:
            lst.append((_key(world.den_point(x)), world.den_point(g), world.den_expr(v)))
        samples[id(F)] = lst
    for n, F in funcs:
        lst = samples[id(F)]
        # I1: one value per point
        byx = {}
        for xk, dg, dv in lst:
            byx.setdefault(xk, []).append((dg, dv))
        for xk, entries in byx.items():
            for dg, dv in entries[1:]:
                if not _close(entries[0][1], dv):
                    world.violation("C07/I1", "two-values-recorded-for-one-function-at-one-point", {"f": n})
                    break
            if getattr(F, "reuse_gradient", False) and F.get_is_leaf():
                # a function declared differentiable has one gradient per point: whatever route recorded them
                # (its own oracle, the remainder handed down by a combination), all samples at one point agree
                for dg, dv in entries[1:]:
                    if not _close(entries[0][0], dg):
                        world.violation("C07/I2", "differentiable-function-has-two-gradients-recorded-at-one-point",
                                        {"f": n})
                        break
        # I6
        if not F.get_is_leaf():
            terms = [(t, w) for t, w in F.decomposition_dict.items() if w != 0]
            want = all(getattr(t, "reuse_gradient", False) for t, w in terms) if terms else None
            if want is not None and bool(F.reuse_gradient) != want:
                world.reach["book_I6_flag_differs_from_and_of_nonzero_terms"] += 1   # diagnostic only
            # I3: every recorded sample is the weighted sum of one recorded sample of each term at that point
            for xk, dg, dv in lst:
                if not terms:
                    # identically-zero combination: only what its own oracle returns is judged (see below)
                    continue
                cands = []
                ok_terms = True
                for t, w in terms:
                    tl = [(g2, v2) for (xk2, g2, v2) in samples.get(id(t), _samples_of(world, t)) if xk2 == xk]
                    if not tl:
                        ok_terms = False
                        break
                    cands.append([(w, g2, v2) for g2, v2 in tl])
                if not ok_terms:
                    world.violation("C07/I3", "composite-sample-without-sample-of-a-term-at-that-point", {"f": n})
                    continue
                found = False
                count = 0
                for combo in itertools.product(*cands):
                    count += 1
                    if count > 4000:
                        found = True   # too many candidates to decide: do not judge
                        world.reach["book_undecided"] += 1
                        break
                    sg, sv = {}, {}
                    for w, g2, v2 in combo:
                        _add(sg, g2, w)
                        _add(sv, v2, w)
                    if _close(sg, dg) and _close(sv, dv):
                        found = True
                        break
                if not found:
                    world.violation("C07/I3", "composite-sample-is-not-the-weighted-sum-of-its-terms-samples",
                                    {"f": n, "terms": len(terms)})
                world.reach["book_composite_samples"] += 1
        # I4: stationary points have zero gradient on F
        for (x, g, v) in F.list_of_stationary_points:
            if _prune(world.den_point(g)):
                world.violation("C07/I4", "stationary-point-with-non-zero-gradient", {"f": n})
    # stationary ops: the returned point must be recorded with zero gradient
    if out["status"] == "ok" and name == "stationary":
        F = world.h[op["f"]]
        x = world.h[op["out"][0]]
        hit = [t for t in F.list_of_points if t[0] is x]
        if not hit or _prune(world.den_point(hit[0][1])):
            world.violation("C07/I4", "declared-stationary-point-not-recorded-with-zero-gradient", {"f": op["f"]})
    st["known_samples"] = set((n, xk) for n, F in funcs for (xk, dg, dv) in samples[id(F)])
    world.reach["book_checked"] += 1


def _samples_of(world, F):
    return [(_key(world.den_point(x)), world.den_point(g), world.den_expr(v)) for (x, g, v) in F.list_of_points]


# --------------------------------------------------------------------------------------------------
# C15
# --------------------------------------------------------------------------------------------------
def check_blocks(world, i, op, out):
    st = world.__dict__.setdefault("_blocks", {"got": {}})
    if out["status"] != "ok" or op["op"] != "block":
        return
    B = world.h[op["B"]]
    x = world.h[op["x"]]
    xb = world.h[op["out"]]
    d = B.get_nb_blocks()
    key = (op["B"], op["x"], op["k"])
    # asking again returns the same block object
    again = B.get_block(x, op["k"])
    if again is not xb:
        world.violation("C15/same", "asking-again-returns-another-block", {"B": op["B"], "x": op["x"], "k": op["k"]})
    prev = st["got"].get(key)
    if prev is not None and prev is not xb:
        world.violation("C15/same", "asking-again-returns-another-block", {"B": op["B"], "x": op["x"], "k": op["k"]})
    st["got"][key] = xb
    # blocks sum back to the point
    nleaf_before = len(world.leaf_label)
    blocks = [B.get_block(x, k) for k in range(d)]
    acc = {}
    for bk in blocks:
        _add(acc, world.den_point(bk), 1.0)
    if not _close(_prune(acc), world.den_point(x)):
        world.violation("C15/sum", "blocks-do-not-sum-back-to-the-point", {"B": op["B"], "x": op["x"], "d": d})
    if d == 1:
        if not _close(world.den_point(xb), world.den_point(x)):
            world.violation("C15/identity", "one-block-partition-is-not-the-identity", {"B": op["B"]})
    world.reach["blocks_checked"] += 1


def check_partition_relations(world, rec):
    """Exactly the cross-block orthogonality relations of all decomposed points are delivered, and they hold on a
    concrete coordinate partition."""
    from sim import oracles, seam
    ctx = oracles.build_context(world, rec)
    if not ctx.ok:
        return
    cap = rec.caps[0]
    # block-smooth functions are constrained block by block: one condition per ordered pair of different samples
    # and per block, whatever the samples are called
    for fn in (rec.ledger_snapshot or {}).get("funcs", []):
        F = world.allobj.get(fn)
        part = getattr(F, "partition", None)
        if F is None or part is None or type(F).__name__ != "BlockSmoothConvexFunction":
            continue
        n, d = len(F.list_of_points), part.get_nb_blocks()
        ncons = sum(1 for r in rec.created if r["kind"] == "cons" and r["origin"] == "class" and r["owner"] is F)
        if ncons != d * n * (n - 1):
            world.violation("C15/blockwise", "block-smooth-function-is-not-constrained-for-every-pair-and-block",
                            {"f": fn, "samples": n, "blocks": d, "conditions": ncons})
        world.reach["blockwise_counted"] += 1
    delivered = [it for it in ctx.exp_cons if it["source"] == "partition"]
    dsig = []
    for it in delivered:
        dsig.append(it["sig"])
    for Bn in (rec.ledger_snapshot or {}).get("parts", []):
        B = world.allobj[Bn]
        d = B.get_nb_blocks()
        mine = [it for it in delivered if any(r["obj"] is it["obj"] and r["owner"] is B for r in rec.created)]
        # reference model: every point the partition decomposed, as known to the *harness*: points requested by
        # the session (by object), temporaries decomposed on the fly (their blocks), gradients of the samples of
        # block-smooth functions built on this partition (decomposed while class constraints are generated)
        decomposed = []     # list of block lists
        seen_obj = set()
        for (bn, xn) in world.block_requests:
            if bn == Bn and xn in world.allobj and id(world.allobj[xn]) not in seen_obj:
                x = world.allobj[xn]
                seen_obj.add(id(x))
                decomposed.append([B.get_block(x, k) for k in range(d)])
        for (bn, den, blks) in world.temp_decomposed:
            if bn == Bn:
                decomposed.append(list(blks))
        for fn in (rec.ledger_snapshot or {}).get("funcs", []):
            F = world.allobj.get(fn)
            if F is not None and getattr(F, "partition", None) is B and len(F.list_of_points) >= 2:
                # (with a single sample the class has no pair to constrain and decomposes nothing)
                for (x, g, v) in F.list_of_points:
                    if id(g) not in seen_obj:
                        seen_obj.add(id(g))
                        decomposed.append([B.get_block(g, k) for k in range(d)])
        pts = decomposed
        want = []
        for bx in decomposed:
            for by in decomposed:
                for k in range(d):
                    for l in range(d):
                        if k == l:
                            continue
                        e = bx[k] * by[l]
                        want.append(seam.expression_sig(e))
        have = [it["sig"] for it in mine]
        # set semantics, up to sign (an equality e == 0 and -e == 0 are the same relation)
        def keyof(s_):
            # sign-normalised, rounded key (an equality e == 0 and -e == 0 are the same relation)
            sc = max(abs(v) for v in s_)
            if sc <= 1e-13:
                return None
            t = tuple(round(v / sc, 7) for v in s_)
            first = next(v for v in t if v != 0)
            if first < 0:
                t = tuple(-v for v in t)
            return (round(sc, 7 - int(np.floor(np.log10(sc))) if sc > 0 else 7), t)

        def canon(sigs):
            out = {}
            for s_ in sigs:
                k_ = keyof(s_)
                if k_ is not None:
                    out.setdefault(k_, s_)
            return out
        cw, ch = canon(want), canon(have)

        def near(k_, pool):
            # exact key hit, or a neighbour within tolerance (rounding boundary): fall back to a scan
            if k_ in pool:
                return True
            s_ = cw.get(k_) or ch.get(k_)
            return any(seam.sig_close(s_, t) or seam.sig_close(seam.sig_neg(s_), t) for t in pool.values())
        missing = [k_ for k_ in cw if not near(k_, ch)]
        extra = [k_ for k_ in ch if not near(k_, cw)]
        if missing:
            world.violation("C15/relations", "cross-block-relation-not-imposed", {"B": Bn, "d": d, "missing": len(missing),
                                                                                 "points": len(pts)})
        if extra:
            world.violation("C15/relations", "relation-imposed-that-is-not-a-cross-block-orthogonality",
                            {"B": Bn, "d": d, "extra": len(extra)})
        for it in mine:
            if it["sense"] != "eq":
                world.violation("C15/relations", "partition-relation-is-not-an-equality", {"B": Bn})
                break
        # concrete side: bind every leaf point to a vector of R^n, blocks to true coordinate projections
        if d >= 2 and pts:
            leaves = {}
            rng = np.random.default_rng(len(pts) * 7 + d)
            nvec = 3 * d
            proj = [np.zeros(nvec) for _ in range(d)]
            for c in range(nvec):
                proj[c % d][c] = 1.0
            # each decomposition: blocks 0..d-2 are fresh leaves, the last one is (point - sum of the others);
            # the decomposed point itself is recovered as the sum of its blocks
            block_leaf = {}
            for bl in decomposed:
                for k in range(d - 1):
                    block_leaf[id(bl[k])] = (bl, k)

            memo = {}
            busy = set()

            def leafval(q):
                if id(q) not in leaves:
                    leaves[id(q)] = rng.standard_normal(nvec)
                return leaves[id(q)]

            def value(p):
                if id(p) in memo:
                    return memo[id(p)]
                if id(p) in busy:
                    return leafval(p)          # inconsistent (cyclic) decomposition: treat as a free vector
                busy.add(id(p))
                if id(p) in block_leaf:
                    bl, k = block_leaf[id(p)]
                    # the decomposed point = the part of its last block that is not made of its own leaf blocks
                    tot = np.zeros(nvec)
                    for q, w in bl[-1].decomposition_dict.items():
                        if any(q is b2 for b2 in bl[:-1]):
                            continue
                        tot = tot + w * (value(q) if q is not bl[-1] else leafval(q))
                    v = proj[k] * tot
                else:
                    v = np.zeros(nvec)
                    for q, w in p.decomposition_dict.items():
                        if q is p or id(q) not in block_leaf:
                            v = v + w * leafval(q)
                        else:
                            v = v + w * value(q)
                busy.discard(id(p))
                memo[id(p)] = v
                return v
            worst = 0.0
            for it in mine:
                e = it["obj"].expression
                tot = 0.0
                for key, w in e.decomposition_dict.items():
                    if isinstance(key, tuple):
                        tot += w * float(np.dot(value(key[0]), value(key[1])))
                worst = max(worst, abs(tot))
            if worst > 1e-9:
                world.violation("C15/concrete", "imposed-relation-fails-on-real-coordinate-projections",
                                {"B": Bn, "d": d, "value": worst})
    world.reach["partition_relations_checked"] += 1


# --------------------------------------------------------------------------------------------------
# C04
# --------------------------------------------------------------------------------------------------
def check_pattern(world, rec):
    """Every table cell (i, j) holds a condition iff samples i and j are different samples (by identity)."""
    from PEPit.constraint import Constraint
    for c in rec.table_calls:
        if c.get("unknown"):
            continue
        F = c["f"]
        tab = F.tables_of_constraints.get(c["name"])
        l1, l2 = c["l1"], c["l2"]
        if tab is None:
            if l1 and (l2 is None or l2):
                world.violation("C04/pattern", "no-table-for-condition", {"condition": c["name"]})
            continue
        vals = tab.values
        if l2 is None:
            if vals.shape != (1, len(l1)):
                world.violation("C04/pattern", "table-shape", {"condition": c["name"]})
                continue
            for i in range(len(l1)):
                if not isinstance(vals[0, i], Constraint):
                    world.violation("C04/pattern", "sample-without-its-condition", {"condition": c["name"], "i": i})
                    break
            continue
        if vals.shape != (len(l1), len(l2)):
            world.violation("C04/pattern", "table-shape", {"condition": c["name"]})
            continue
        same_lists = len(l1) == len(l2) and all(a is b for a, b in zip(l1, l2))
        bad = None
        for i, ti in enumerate(l1):
            for j, tj in enumerate(l2):
                has = isinstance(vals[i, j], Constraint)
                if ti is tj:
                    if has:
                        bad = ("condition-between-a-sample-and-itself", i, j)
                    continue
                if c["symmetry"] and same_lists:
                    mirror = isinstance(vals[j, i], Constraint)
                    if has == mirror:
                        bad = ("symmetric-condition-not-exactly-once-per-unordered-pair", i, j)
                elif not has:
                    bad = ("pair-of-distinct-samples-without-its-condition", i, j)
                if bad:
                    break
            if bad:
                break
        if bad:
            world.violation("C04/pattern", bad[0], {"condition": c["name"], "cell": [bad[1], bad[2]],
                                                    "class": type(F).__name__})
        world.reach["pattern_tables"] += 1


def class_descriptor(world, rec):
    """Canonical description of the class rows / LMIs generated for this solve, over order-independent leaf labels."""
    from PEPit.expression import Expression
    from PEPit.point import Point
    labels = {}     # id(leaf) -> label
    # 1. leaves named by the session's handles
    for name, obj in world.allobj.items():
        if isinstance(obj, (Point, Expression)) and obj.get_is_leaf():
            labels.setdefault(id(obj), name)

    def canon_point(p):
        items = []
        for q, w in p.decomposition_dict.items():
            if w == 0:
                continue
            if id(q) not in labels:
                return None
            items.append((labels[id(q)], round(float(w), 9)))
        return tuple(sorted(items))

    funcs = [(n, world.allobj[n]) for n in (rec.ledger_snapshot or {}).get("funcs", [])]
    parts = [(n, world.allobj[n]) for n in (rec.ledger_snapshot or {}).get("parts", [])]
    changed = True
    rounds = 0
    while changed and rounds < 20:
        changed = False
        rounds += 1
        for n, F in funcs:
            seen = {}
            for (x, g, v) in F.list_of_points:
                cx = canon_point(x)
                if cx is None:
                    continue
                k = seen.get(cx, 0)
                seen[cx] = k + 1
                if g.get_is_leaf() and id(g) not in labels:
                    labels[id(g)] = "g<%s|%s|%d>" % (n, cx, k)
                    changed = True
                if v.get_is_leaf() and id(v) not in labels:
                    labels[id(v)] = "v<%s|%s|%d>" % (n, cx, k)
                    changed = True
            # a stationary point created by the class itself
            for t, (x, g, v) in enumerate(F.list_of_stationary_points):
                if x.get_is_leaf() and id(x) not in labels:
                    labels[id(x)] = "xs<%s|%d>" % (n, t)
                    changed = True
        for n, B in parts:
            for x, blocks in B.blocks_dict.items():
                cx = canon_point(x)
                if cx is None:
                    continue
                for k, bk in enumerate(blocks[:-1]):
                    if bk.get_is_leaf() and id(bk) not in labels:
                        labels[id(bk)] = "blk<%s|%s|%d>" % (n, cx, k)
                        changed = True
    unl = [0]

    def canon_expr(e):
        items = {}
        if e.get_is_leaf():
            if id(e) not in labels:
                unl[0] += 1
                return None
            return ((("F", labels[id(e)]), 1.0),)
        for k, w in e.decomposition_dict.items():
            if isinstance(k, Expression):
                if id(k) not in labels:
                    unl[0] += 1
                    return None
                key = ("F", labels[id(k)])
            elif isinstance(k, tuple):
                if id(k[0]) not in labels or id(k[1]) not in labels:
                    unl[0] += 1
                    return None
                key = ("G",) + tuple(sorted((labels[id(k[0])], labels[id(k[1])])))
            else:
                key = ("1",)
            items[key] = items.get(key, 0.0) + float(w)
        return tuple(sorted((k, float("%.9g" % v)) for k, v in items.items() if abs(v) > 1e-13))

    rows, lmis = [], []
    for r in rec.created:
        if r["origin"] in ("class", "partition") and r["kind"] == "cons":
            ce = canon_expr(r["obj"].expression)
            if ce is None:
                continue
            sense = "eq" if r["obj"].equality_or_inequality == "equality" else "le"
            if sense == "eq" and ce and ce[0][1] < 0:
                ce = tuple((k, -v) for k, v in ce)
            if not ce:
                continue   # 0 <= 0
            rows.append(repr((sense, ce)))
        elif r["origin"] == "class" and r["kind"] == "psd":
            M = r["obj"]
            d = M.shape[0]
            diag, off = [], []
            ok = True
            for i in range(d):
                for j in range(i, d):
                    a = canon_expr(M[i, j])
                    b = canon_expr(M[j, i])
                    if a is None or b is None:
                        ok = False
                        continue
                    if i == j:
                        diag.append(repr(a))
                    else:
                        off.append(repr(tuple(sorted([repr(a), repr(b)]))))
            if ok:
                lmis.append(repr((d, sorted(diag), sorted(off))))
    world.obs["descriptor"] = {"rows": sorted(rows), "lmis": sorted(lmis), "unlabelled": unl[0]}
    world.reach["descriptor_rows"] += len(rows)
