"""Process model: zygote (this process, everything imported) -> worker pool -> one fork per leg."""
import faulthandler
import json
import os
import select
import signal
import sys
import time
import traceback

LEG_TIMEOUT = float(os.environ.get("VERIF_LEG_TIMEOUT", "120"))


def run_leg_forked(leg, timeout=None):
    """Execute one leg in a pristine fork of the zygote; return its JSON result."""
    from sim import executor
    timeout = timeout or LEG_TIMEOUT
    r, w = os.pipe()
    sys.stdout.flush()
    sys.stderr.flush()
    pid = os.fork()
    if pid == 0:
        code = 0
        try:
            os.close(r)
            try:
                faulthandler.enable(file=sys.stderr)
                faulthandler.dump_traceback_later(max(timeout - 2, 1), exit=False, file=sys.stderr)
            except Exception:
                pass
            try:
                res = executor.run_leg(leg)
            except BaseException as e:  # noqa
                res = {"status": "harness_error", "error": "%s\n%s" % (e, traceback.format_exc()[-3000:])}
            data = json.dumps(res, default=str).encode()
            with os.fdopen(w, "wb") as fh:
                fh.write(data)
        except BaseException:  # noqa
            code = 3
        finally:
            os._exit(code)
    os.close(w)
    chunks = []
    deadline = time.time() + timeout
    timed_out = False
    while True:
        left = deadline - time.time()
        if left <= 0:
            timed_out = True
            break
        rd, _, _ = select.select([r], [], [], min(left, 1.0))
        if rd:
            buf = os.read(r, 1 << 20)
            if not buf:
                break
            chunks.append(buf)
    os.close(r)
    if timed_out:
        try:
            os.kill(pid, signal.SIGKILL)
        except OSError:
            pass
    try:
        _, st = os.waitpid(pid, 0)
    except ChildProcessError:
        st = 0
    if timed_out:
        return {"status": "timeout", "error": "leg exceeded %.0fs" % timeout}
    data = b"".join(chunks)
    if not data:
        return {"status": "harness_error", "error": "child died without a result (wait status %r)" % (st,)}
    try:
        return json.loads(data.decode())
    except Exception as e:  # noqa
        return {"status": "harness_error", "error": "unparsable child result: %s" % e}


def run_leg_fresh_interpreter(leg, timeout=None):
    """Execute one leg in a genuinely fresh interpreter (subprocess), for fork == fresh confirmation."""
    import subprocess
    timeout = timeout or LEG_TIMEOUT
    here = os.path.dirname(os.path.dirname(os.path.abspath(__file__)))
    code = ("import sys, json; sys.path.insert(0, %r); from sim import env; env.bootstrap();"
            "from sim import executor; leg = json.load(sys.stdin);"
            "res = executor.run_leg(leg); sys.stdout = sys.__stdout__; print(json.dumps(res, default=str))" % here)
    envv = dict(os.environ)
    try:
        p = subprocess.run([sys.executable, "-B", "-W", "ignore", "-c", code], input=json.dumps(leg).encode(),
                           stdout=subprocess.PIPE, stderr=subprocess.PIPE, timeout=timeout, env=envv)
    except subprocess.TimeoutExpired:
        return {"status": "timeout", "error": "fresh interpreter exceeded %.0fs" % timeout}
    if p.returncode != 0:
        return {"status": "harness_error", "error": p.stderr.decode()[-2000:]}
    try:
        return json.loads(p.stdout.decode().strip().splitlines()[-1])
    except Exception as e:  # noqa
        return {"status": "harness_error", "error": "unparsable: %s %s" % (e, p.stdout[-500:])}
